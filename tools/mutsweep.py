#!/venv/bin/python
"""First-order mutation sweep: unbiased small source mutations of /repo/src/clikit, each on a scratch copy.

  tools/mutsweep.py --n 200 --seed 1 [--jobs 4] [--only ui/components/table]

For every sampled mutant: the package must still compile, the repository's own test-suite is run; mutants the tests
let through are run against the quick checks that watch the mutated file (FILE_CHECKS below).  Results go to
out/mutsweep_<seed>.jsonl; the summary lists the mutants that tests AND checks let through - each is either
equivalent, outside every property, or a gap worth a look.  Never touches /repo, writes no evidence.
"""
import ast
import concurrent.futures
import difflib
import json
import os
import random
import shutil
import subprocess
import sys
import tempfile

ROOT = os.path.dirname(os.path.dirname(os.path.abspath(__file__)))
SRC = "/repo/src/clikit"
BASE = ["/repo"]  # replaced by a snapshot taken when the sweep starts: later commits to /repo do not shift the mutation points
DESELECT = "tests/io/output_stream/test_stream_output_stream.py::test_supports_utf8_with_encoding"

ALL = ["C%02d" % i for i in range(1, 21)]
FILE_CHECKS = [
    ("ui/components/table", ["C14", "C17"]), ("ui/components/cell_wrapper", ["C14", "C17"]), ("ui/components/border_util", ["C14", "C17"]),
    ("ui/style", ["C14", "C17"]), ("ui/components/progress_bar", ["C16"]), ("ui/components/progress_indicator", ["C19"]),
    ("ui/components/question", ["C18", "C09"]), ("ui/components/choice_question", ["C18"]), ("ui/components/confirmation_question", ["C18", "C09"]),
    ("ui/components/exception_trace", ["C20", "C04", "C09", "C17"]), ("ui/help", ["C13", "C17", "C09"]), ("ui/components", ["C13", "C17", "C09"]),
    ("ui/layout", ["C13", "C17"]), ("ui/alignment", ["C13", "C17"]), ("ui/", ["C13", "C14", "C17"]),
    ("api/event", ["C12", "C04"]), ("api/args/format", ["C06", "C07", "C01", "C02", "C05", "C03", "C13"]), ("api/args", ["C01", "C02", "C05", "C08", "C03", "C04"]),
    ("args/", ["C01", "C02", "C05", "C08", "C03", "C09", "C04", "C17"]), ("resolver", ["C03", "C04", "C09", "C13", "C17", "C08"]),
    ("api/command", ["C03", "C04", "C13", "C17", "C09"]), ("api/config", ["C03", "C04", "C09", "C12", "C13", "C17", "C07", "C02"]),
    ("config/", ["C09", "C04", "C12", "C17", "C13", "C11"]), ("console_application", ["C04", "C03", "C09", "C12", "C17", "C13"]),
    ("handler", ["C04", "C09", "C13", "C17"]), ("api/io/section_output", ["C15", "C10", "C16", "C11"]), ("api/io", ["C10", "C11", "C09", "C15", "C18", "C16"]),
    ("io/", ["C10", "C11", "C09", "C15", "C18", "C05"]), ("formatter", ["C11", "C14", "C13", "C20", "C16"]), ("adapter", ["C11", "C14"]), ("api/formatter", ["C11", "C14", "C17"]),
    ("utils/string", ["C07", "C14", "C13", "C01", "C02"]), ("utils/terminal", ["C13", "C14", "C15", "C16"]), ("utils/time", ["C16"]), ("utils/command", ["C03"]),
]
SKIP_FILES = ("_compat.py", "__init__.py", "api/exceptions.py")
CMP = {"<": "<=", "<=": "<", ">": ">=", ">=": ">", "==": "!=", "!=": "==", "is not": "is", "is": "is not", "not in": "in", "in": "not in"}


def checks_for(rel):
    for prefix, ids in FILE_CHECKS:
        if rel.startswith(prefix):
            return ids
    return ALL


class Point(object):
    def __init__(self, rel, lineno, op, start, end, new):
        self.rel, self.lineno, self.op, self.start, self.end, self.new = rel, lineno, op, start, end, new


def offsets(src):
    out, k = [0], 0
    for line in src.split("\n"):
        k += len(line.encode("utf-8")) + 1
        out.append(k)
    return out


def points_of(rel, src):
    """Mutation points as byte-offset replacements."""
    data = src.encode("utf-8")
    try:
        tree = ast.parse(src)
    except SyntaxError:
        return []
    off = offsets(src)

    def pos(node, end=False):
        return off[(node.end_lineno if end else node.lineno) - 1] + (node.end_col_offset if end else node.col_offset)

    pts = []
    docstrings = set()
    for node in ast.walk(tree):
        if isinstance(node, (ast.Module, ast.ClassDef, ast.FunctionDef)) and node.body and isinstance(node.body[0], ast.Expr) and isinstance(getattr(node.body[0], "value", None), ast.Constant):
            docstrings.add(id(node.body[0].value))
    for node in ast.walk(tree):
        if isinstance(node, ast.Compare) and len(node.ops) == 1:
            a, b = pos(node.left, True), pos(node.comparators[0])
            seg = data[a:b].decode("utf-8")
            for old in sorted(CMP, key=len, reverse=True):
                i = seg.find(old)
                if i >= 0 and seg.strip().startswith(old) and seg.strip() == old:
                    pts.append(Point(rel, node.lineno, "cmp %s -> %s" % (old, CMP[old]), a + len(seg[:i].encode()), a + len(seg[:i].encode()) + len(old), CMP[old]))
                    break
        elif isinstance(node, ast.BoolOp) and len(node.values) >= 2:
            a, b = pos(node.values[0], True), pos(node.values[1])
            seg = data[a:b].decode("utf-8")
            old = "and" if isinstance(node.op, ast.And) else "or"
            i = seg.find(old)
            if i >= 0 and seg.replace("(", "").replace(")", "").split() == [old]:
                new = "or" if old == "and" else "and"
                pts.append(Point(rel, node.lineno, "bool %s -> %s" % (old, new), a + len(seg[:i].encode()), a + len(seg[:i].encode()) + len(old), new))
        elif isinstance(node, ast.UnaryOp) and isinstance(node.op, ast.Not):
            a, b = pos(node), pos(node.operand)
            if data[a:b].decode().strip() == "not":
                pts.append(Point(rel, node.lineno, "drop not", a, b, ""))
        elif isinstance(node, ast.Constant) and id(node) not in docstrings:
            a, b = pos(node), pos(node, True)
            if node.value is True or node.value is False:
                pts.append(Point(rel, node.lineno, "const %s -> %s" % (node.value, not node.value), a, b, str(not node.value)))
            elif isinstance(node.value, int) and data[a:b].decode().isdigit():
                new = {0: 1, 1: 0}.get(node.value, node.value + 1)
                pts.append(Point(rel, node.lineno, "const %d -> %d" % (node.value, new), a, b, str(new)))
                if node.value >= 2:
                    pts.append(Point(rel, node.lineno, "const %d -> %d" % (node.value, node.value - 1), a, b, str(node.value - 1)))
        elif isinstance(node, ast.BinOp) and isinstance(node.op, (ast.Add, ast.Sub)):
            a, b = pos(node.left, True), pos(node.right)
            seg = data[a:b].decode("utf-8")
            old = "+" if isinstance(node.op, ast.Add) else "-"
            if seg.strip() == old:
                i = seg.find(old)
                pts.append(Point(rel, node.lineno, "arith %s -> %s" % (old, "-" if old == "+" else "+"), a + i, a + i + 1, "-" if old == "+" else "+"))
        elif isinstance(node, (ast.If, ast.While)) and not isinstance(node.test, ast.Constant):
            a, b = pos(node.test), pos(node.test, True)
            pts.append(Point(rel, node.lineno, "negate condition", a, b, "not (" + data[a:b].decode("utf-8") + ")"))
        elif isinstance(node, ast.Break):
            pts.append(Point(rel, node.lineno, "break -> continue", pos(node), pos(node, True), "continue"))
        elif isinstance(node, ast.Continue):
            pts.append(Point(rel, node.lineno, "continue -> break", pos(node), pos(node, True), "break"))
        elif isinstance(node, (ast.Expr, ast.Assign, ast.AugAssign)) and node.lineno == node.end_lineno:
            if isinstance(node, ast.Expr) and not isinstance(node.value, ast.Call):
                continue
            if isinstance(node, ast.Assign) and any(not isinstance(t, ast.Attribute) for t in node.targets):
                # deleting a local assignment mostly yields NameError: keep attribute stores (state updates)
                continue
            pts.append(Point(rel, node.lineno, "delete statement", pos(node), pos(node, True), "pass"))
    return pts


def all_points(only=None):
    pts = []
    for d, _, fs in os.walk(SRC):
        for f in sorted(fs):
            p = os.path.join(d, f)
            rel = os.path.relpath(p, SRC)
            if not f.endswith(".py") or rel.endswith(SKIP_FILES) or (only and not any(o in rel for o in only.split(","))):
                continue
            pts += points_of(rel, open(p, encoding="utf-8").read())
    return pts


def run_one(k, pt, workroot, vjobs):
    tmp = tempfile.mkdtemp(prefix="m%04d_" % k, dir=workroot)
    res = {"k": k, "file": pt.rel, "line": pt.lineno, "op": pt.op}
    try:
        dst = os.path.join(tmp, "repo")
        shutil.copytree(BASE[0], dst, ignore=shutil.ignore_patterns(".git", "__pycache__", "*.pyc", ".pytest_cache"))
        p = os.path.join(dst, "src", "clikit", pt.rel)
        data = open(p, "rb").read()
        new = data[:pt.start] + pt.new.encode("utf-8") + data[pt.end:]
        open(p, "wb").write(new)
        old_lines, new_lines = data.decode("utf-8").split("\n"), new.decode("utf-8").split("\n")
        res["diff"] = [l for l in difflib.unified_diff(old_lines, new_lines, "a/src/clikit/" + pt.rel, "b/src/clikit/" + pt.rel, lineterm="", n=1)]
        try:
            compile(new.decode("utf-8"), p, "exec")
        except SyntaxError as e:
            res["status"] = "does-not-compile"
            return res
        env = dict(os.environ, PYTHONPATH=os.path.join(dst, "src"), PYTHONDONTWRITEBYTECODE="1")
        try:
            r = subprocess.run(["/venv/bin/python", "-m", "pytest", "-q", "-x", "-p", "no:cacheprovider", "--timeout=120", "--deselect", DESELECT],
                               cwd=dst, env=env, stdout=subprocess.PIPE, stderr=subprocess.STDOUT, timeout=600)
            tests_ok = r.returncode == 0
        except subprocess.TimeoutExpired:
            tests_ok = False
        if not tests_ok:
            res["status"] = "killed-by-tests"
            return res
        res["checks"] = {}
        for pid in checks_for(pt.rel):
            env = dict(os.environ, VERIF_REPO=dst, VERIF_NO_EVIDENCE="1", VERIF_JOBS=str(vjobs))
            try:
                r = subprocess.run([os.path.join(ROOT, "check"), pid, "quick"], env=env, stdout=subprocess.PIPE, stderr=subprocess.STDOUT, timeout=1500)
                rc = r.returncode
                first = next((l.strip() for l in r.stdout.decode("utf-8", "replace").splitlines() if "clause=" in l), "")
            except subprocess.TimeoutExpired:
                rc, first = 2, "timeout"
            res["checks"][pid] = rc
            if rc == 1:
                res["first"] = "%s %s" % (pid, first[:200])
                break
        rcs = set(res["checks"].values())
        res["status"] = "detected" if 1 in rcs else ("inconclusive" if 2 in rcs else "survived")
        return res
    except Exception as e:
        res["status"] = "harness-error %r" % (e,)
        return res
    finally:
        shutil.rmtree(tmp, ignore_errors=True)


def main():
    a = sys.argv[1:]
    n, seed, jobs, only = 100, 1, 4, None
    while a:
        f = a.pop(0)
        if f == "--n":
            n = int(a.pop(0))
        elif f == "--seed":
            seed = int(a.pop(0))
        elif f == "--jobs":
            jobs = int(a.pop(0))
        elif f == "--only":
            only = a.pop(0)
    workroot = tempfile.mkdtemp(prefix="msweep_", dir="/tmp")
    BASE[0] = os.path.join(workroot, "base")
    shutil.copytree("/repo", BASE[0], ignore=shutil.ignore_patterns(".git", "__pycache__", "*.pyc", ".pytest_cache"))
    global SRC
    SRC = os.path.join(BASE[0], "src", "clikit")
    pts = all_points(only)
    rng = random.Random(seed)
    rng.shuffle(pts)
    pts = pts[:n]
    print("mutation points sampled: %d" % len(pts))
    outp = os.path.join(ROOT, "out", "mutsweep_%d%s.jsonl" % (seed, ("_" + only.replace("/", "_")) if only else ""))
    counts = {}
    try:
        with open(outp, "w") as out, concurrent.futures.ThreadPoolExecutor(jobs) as ex:
            futs = [ex.submit(run_one, k, pt, workroot, max(2, 16 // jobs)) for k, pt in enumerate(pts)]
            for fu in concurrent.futures.as_completed(futs):
                res = fu.result()
                counts[res["status"].split(" ")[0]] = counts.get(res["status"].split(" ")[0], 0) + 1
                out.write(json.dumps(res) + "\n")
                out.flush()
                if res["status"] in ("survived", "inconclusive") or res["status"].startswith("harness"):
                    print("%s %s:%d %s" % (res["status"].upper(), res["file"], res["line"], res["op"]))
                    for l in res.get("diff", [])[2:]:
                        print("    " + l)
                    sys.stdout.flush()
    finally:
        shutil.rmtree(workroot, ignore_errors=True)
    print("summary:", json.dumps(counts, sort_keys=True))
    print("details:", outp)


if __name__ == "__main__":
    main()
