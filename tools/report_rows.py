#!/venv/bin/python
"""Append (or replace) rows of seeded/REPORT.md from the meta.json of the named seeded changes - for changes verified
with tools/keepmut.py / tools/recheck_seeded.sh after the last complete tools/recheck_all.sh run.

  tools/report_rows.py C01-w10m1 C01-w10m2 ...
"""
import json
import os
import sys

ROOT = os.path.dirname(os.path.dirname(os.path.abspath(__file__)))


def row(name):
    m = json.load(open(os.path.join(ROOT, "seeded", name, "meta.json")))
    v = m["verified"]
    det = " ".join(k for k, c in sorted(m.get("checks", {}).items()) if c.get("exit") == 1)
    if v.get("demo_exit_with_change") == 0:
        det = "SUPERSEDED: on the current /repo head the change has no effect any more (its demonstration passes with it)"
    return "| %s | demo without=%s with=%s | tests: %s | %s |" % (
        name, v.get("demo_exit_without_change"), v.get("demo_exit_with_change"), v.get("repo_tests_with_change"), det + " " if det else "NOT DETECTED")


def main():
    p = os.path.join(ROOT, "seeded", "REPORT.md")
    lines = open(p).read().rstrip("\n").split("\n")
    for name in sys.argv[1:]:
        lines = [l for l in lines if not l.startswith("| %s |" % name)]
        lines.append(row(name))
    head, rows = lines[:4], sorted(lines[4:])
    open(p, "w").write("\n".join(head + rows) + "\n")
    print("rows now:", len(rows))


if __name__ == "__main__":
    main()
