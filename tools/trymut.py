#!/venv/bin/python
"""Apply a textual mutation (or a patch file) to a scratch copy of the repository
and run one or more checks against it.  Never touches /repo; evidence files are
not rewritten (VERIF_NO_EVIDENCE=1).

  tools/trymut.py C12[,C10] [--tier quick] [--tests] FILE OLD NEW [FILE OLD NEW ...]
  tools/trymut.py C12 --patch some.diff
"""
import os
import shutil
import subprocess
import sys
import tempfile

ROOT = os.path.dirname(os.path.dirname(os.path.abspath(__file__)))


def main():
    a = sys.argv[1:]
    ids = a.pop(0).split(",")
    tier = "quick"
    tests = False
    patch = None
    while a and a[0].startswith("--"):
        f = a.pop(0)
        if f == "--tier":
            tier = a.pop(0)
        elif f == "--tests":
            tests = True
        elif f == "--patch":
            patch = os.path.abspath(a.pop(0))
    tmp = tempfile.mkdtemp(prefix="vmut_", dir="/tmp")
    try:
        dst = os.path.join(tmp, "repo")
        shutil.copytree("/repo", dst, ignore=shutil.ignore_patterns(".git", "__pycache__", "*.pyc"))
        if patch:
            subprocess.check_call(["patch", "-p1", "-s", "-i", patch], cwd=dst)
        while a:
            f, old, new = a[0], a[1], a[2]
            a = a[3:]
            p = os.path.join(dst, f)
            s = open(p).read()
            if s.count(old) != 1:
                print("MUTATION ERROR: %r occurs %d times in %s" % (old, s.count(old), f))
                return 3
            open(p, "w").write(s.replace(old, new))
        if tests:
            env = dict(os.environ, PYTHONPATH=os.path.join(dst, "src"), PYTHONDONTWRITEBYTECODE="1")
            r = subprocess.run(["/venv/bin/python", "-m", "pytest", "-q", "-p", "no:cacheprovider", "--deselect",
                                "tests/io/output_stream/test_stream_output_stream.py::test_supports_utf8_with_encoding"],
                               cwd=dst, env=env, stdout=subprocess.PIPE, stderr=subprocess.STDOUT)
            print("repo tests on mutant:", r.stdout.decode().strip().splitlines()[-1])
        rc_all = 0
        for pid in ids:
            env = dict(os.environ, VERIF_REPO=dst, VERIF_NO_EVIDENCE="1")
            r = subprocess.run([os.path.join(ROOT, "check"), pid, tier], env=env, stdout=subprocess.PIPE, stderr=subprocess.STDOUT)
            out = r.stdout.decode()
            lines = [l for l in out.splitlines() if not l.startswith("WARNING conda")]
            print("== %s %s: exit %d" % (pid, tier, r.returncode))
            print("\n".join(lines[:6] + (["..."] + lines[-2:] if len(lines) > 8 else lines[6:])))
            rc_all = max(rc_all, r.returncode)
        return 0
    finally:
        shutil.rmtree(tmp, ignore_errors=True)


if __name__ == "__main__":
    sys.exit(main())
