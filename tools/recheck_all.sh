#!/bin/sh
# Re-verify every stored seeded change against the current checks and /repo head; writes seeded/REPORT.md
# usage: tools/recheck_all.sh [parallel jobs, default 3]
cd "$(dirname "$0")/.." || exit 2
jobs=${1:-3}
tmp=$(mktemp -d /tmp/recheck_XXXX)
ls seeded | grep '^C[0-9][0-9]-' | xargs -P "$jobs" -I{} sh -c 'tools/recheck_seeded.sh {} > '"$tmp"'/{}.log 2>&1'
out=seeded/REPORT.md
echo "# Seeded changes re-checked against the current checks (quick tier) and the current /repo head" > $out
echo "" >> $out
echo "| seeded change | demo fails with / passes without | repo tests with change | detected by (exit 1) |" >> $out
echo "|---|---|---|---|" >> $out
for name in $(ls seeded | grep '^C[0-9][0-9]-'); do
  res=$(grep -v "^WARNING" $tmp/$name.log)
  demo=$(echo "$res" | grep -o "demo without=[0-9]* with=[0-9]*" | head -1)
  tests=$(echo "$res" | grep -o "tests: [^;]*" | head -1)
  det=$(echo "$res" | grep "^check" | grep "exit 1" | awk '{print $2}' | tr '\n' ' ')
  napply=$(echo "$res" | grep -c "DOES NOT APPLY")
  if [ "$napply" != "0" ]; then det="PATCH DOES NOT APPLY TO THE CURRENT HEAD"; fi
  case "$demo" in *"with=0") det="SUPERSEDED: on the current /repo head the change has no effect any more (its demonstration passes with it)";; esac
  echo "| $name | $demo | $tests | ${det:-NOT DETECTED} |" >> $out
done
rm -rf $tmp
grep -c "NOT DETECTED" $out
grep "DOES NOT APPLY" $out | cut -c1-60
