#!/bin/sh
# Re-verify every stored seeded change against the current checks; writes seeded/REPORT.md
cd "$(dirname "$0")/.." || exit 2
out=seeded/REPORT.md
echo "# Seeded changes re-checked against the current checks (quick tier)" > $out
echo "" >> $out
echo "| seeded change | demo fails with / passes without | repo tests with change | detected by (exit 1) |" >> $out
echo "|---|---|---|---|" >> $out
for d in seeded/C*; do
  name=$(basename $d)
  id=${name%%-*}
  res=$(tools/recheck_seeded.sh $name 2>&1 | grep -v "^WARNING")
  demo=$(echo "$res" | grep -o "demo without=[0-9]* with=[0-9]*" | head -1)
  tests=$(echo "$res" | grep -o "tests: [^;]*" | head -1)
  det=$(echo "$res" | grep "^check" | grep "exit 1" | awk '{print $2}' | tr '\n' ' ')
  echo "| $name | $demo | $tests | ${det:-NOT DETECTED} |" >> $out
done
grep -c "NOT DETECTED" $out
