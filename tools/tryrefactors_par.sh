#!/bin/sh
# tools/tryrefactors_par.sh <jobs> <dir> [<dir> ...] : like tryrefactors_stored.sh, several patches at a time; one log per patch under out/fa/
cd "$(dirname "$0")/.." || exit 2
jobs=$1; shift
mkdir -p out/fa
ALL=C01,C02,C03,C04,C05,C06,C07,C08,C09,C10,C11,C12,C13,C14,C15,C16,C17,C18,C19,C20
for d in "$@"; do ls -d $d/[RS]*; done | xargs -P "$jobs" -I{} sh -c 'n=$(echo {} | tr / _); tools/trymut.py '$ALL' --patch {}/patch.diff > out/fa/$n.log 2>&1'
for f in out/fa/*.log; do echo "=== $f"; grep "^== \|VIOLATION\|INCONCLUSIVE\|clause=\|rejects\|FAILED\|does not apply\|DOES NOT" $f | grep -v "exit 0" | head -8; done
echo "=== done"
