#!/bin/sh
# tools/sweep.sh <tier> <seed...>  : run every check at the given seeds without touching evidence files
cd "$(dirname "$0")/.." || exit 2
tier=$1; shift
for seed in "$@"; do
  for id in C01 C02 C03 C04 C05 C06 C07 C08 C09 C10 C11 C12 C13 C14 C15 C16 C17 C18 C19 C20; do
    out=$(VERIF_SEED=$seed VERIF_NO_EVIDENCE=1 ./check $id $tier 2>&1 | grep -v "^WARNING conda\|^KNOWN-FINDING" | tail -2 | tr '\n' ' ')
    echo "seed=$seed $id: $out"
  done
done
