#!/bin/sh
# tools/recheck_seeded.sh <ID>-m<k> [checks]  : re-verify a stored seeded change against the current checks and /repo head
cd "$(dirname "$0")/.." || exit 2
d=seeded/$1
[ -d "$d" ] || { echo "no $d"; exit 2; }
id=${1%%-*}; k=${1##*-m}
t=$(mktemp -d /tmp/reseed_XXXX)
cp $d/patch.diff $t/m$k.diff; cp $d/demo.py $t/demo$k.py; [ -f $d/note.md ] && cp $d/note.md $t/note$k.md
if [ -n "$2" ]; then tools/keepmut.py $id $t $k --checks $2; else tools/keepmut.py $id $t $k; fi
rm -rf $t
