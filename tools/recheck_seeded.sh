#!/bin/sh
# tools/recheck_seeded.sh <ID>-m<k> [checks]  : re-verify a stored seeded change against the current checks and /repo head
# (default checks: those recorded in the change's meta.json)
cd "$(dirname "$0")/.." || exit 2
d=seeded/$1
[ -d "$d" ] || { echo "no $d"; exit 2; }
id=${1%%-*}; rest=${1#*-}; k=${rest##*m}; tag=${rest%m*}
checks=$2
if [ -z "$checks" ] && [ -f $d/meta.json ]; then
  checks=$(/venv/bin/python -c "import json,sys; print(','.join(sorted(json.load(open(sys.argv[1])).get('checks', {}).keys())))" $d/meta.json)
fi
t=$(mktemp -d /tmp/reseed_XXXX)
cp $d/patch.diff $t/m$k.diff; cp $d/demo.py $t/demo$k.py; [ -f $d/note.md ] && cp $d/note.md $t/note$k.md
if [ -n "$tag" ]; then tagopt="--tag $tag"; else tagopt=""; fi
if [ -n "$checks" ]; then tools/keepmut.py $id $t $k $tagopt --checks $checks; else tools/keepmut.py $id $t $k $tagopt; fi
rm -rf $t
