#!/venv/bin/python
"""Summarise the violations of a kept run directory: tools/viols.py C16 [quick]"""
import collections, glob, json, os, subprocess, sys
ROOT = os.path.dirname(os.path.dirname(os.path.abspath(__file__)))
pid = sys.argv[1]; tier = sys.argv[2] if len(sys.argv) > 2 else "quick"
env = dict(os.environ, VERIF_KEEP="1", VERIF_NO_EVIDENCE="1")
subprocess.run([os.path.join(ROOT, "check"), pid, tier], env=env, stdout=subprocess.DEVNULL, stderr=subprocess.DEVNULL)
c = collections.Counter(); ex = {}
for d in glob.glob(os.path.join(ROOT, "out", "run", "%s-%s-*" % (pid, tier))):
    for f in glob.glob(os.path.join(d, "out*.json")):
        j = json.load(open(f))
        for k, n in j["viol_counts"].items(): c[k] += n
        for v in j["violations"]:
            ex.setdefault(v["clause"], [])
            if len(ex[v["clause"]]) < int(os.environ.get("N", "4")): ex[v["clause"]].append(v)
        for r in j["inconclusive"]: print("INCONCLUSIVE:", r[:300])
    subprocess.run(["rm", "-rf", d])
for k, n in c.most_common(): print(n, k)
for k, vs in ex.items():
    print("==", k)
    for v in vs: print("   ", json.dumps(v["case"])[:int(os.environ.get("W", "400"))], "\n      ->", v["detail"][:300])
