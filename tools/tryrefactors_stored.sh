#!/bin/sh
# tools/tryrefactors_stored.sh [dir] : run every quick check against each stored behaviour-preserving change (<dir>/*/patch.diff, default preserving);
# anything but exit 0 is a false alarm (a patch that no longer applies to the current /repo head is reported as such)
cd "$(dirname "$0")/.." || exit 2
ALL=C01,C02,C03,C04,C05,C06,C07,C08,C09,C10,C11,C12,C13,C14,C15,C16,C17,C18,C19,C20
for d in ${1:-preserving}/[RS]*; do
  echo "=== $d"
  tools/trymut.py $ALL --patch $d/patch.diff 2>&1 | grep "^== \|VIOLATION\|INCONCLUSIVE\|clause=\|rejects\|FAILED\|does not apply\|DOES NOT" | grep -v "exit 0" | head -12
done
echo "=== done"
