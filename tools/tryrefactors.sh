#!/bin/sh
# tools/tryrefactors.sh <dir with r<k>.diff> : run every quick check against each behaviour-preserving change; anything but exit 0 is a false alarm
cd "$(dirname "$0")/.." || exit 2
ALL=C01,C02,C03,C04,C05,C06,C07,C08,C09,C10,C11,C12,C13,C14,C15,C16,C17,C18,C19,C20
for f in $1/r*.diff; do
  echo "=== $f"
  tools/trymut.py $ALL --patch $f 2>&1 | grep "^== \|VIOLATION\|INCONCLUSIVE\|clause=" | grep -v "exit 0" | head -12
done
echo "=== done $1"
