#!/venv/bin/python
"""Verify a seeded change produced by a sub-agent and keep it under seeded/.

  tools/keepmut.py C07 /tmp/wt/C07/mutants 1 [--checks C07,C01]

In a scratch copy of /repo (outside /repo and /verif): the patch must apply, the
repository's tests must pass with it, the demonstration must fail with it and
pass without it.  Then the named checks (quick tier) are run against the copy.
Writes seeded/<PROP>-m<k>/{patch.diff,demo.py,note.md,meta.json}.
"""
import json
import os
import shutil
import subprocess
import sys
import tempfile

ROOT = os.path.dirname(os.path.dirname(os.path.abspath(__file__)))
DESELECT = "tests/io/output_stream/test_stream_output_stream.py::test_supports_utf8_with_encoding"


def sh(cmd, cwd=None, env=None):
    r = subprocess.run(cmd, cwd=cwd, env=env, stdout=subprocess.PIPE, stderr=subprocess.STDOUT)
    return r.returncode, r.stdout.decode("utf-8", "replace")


def main():
    prop, src, k = sys.argv[1], sys.argv[2], sys.argv[3]
    checks = [prop]
    tier = "quick"
    if "--checks" in sys.argv:
        checks = sys.argv[sys.argv.index("--checks") + 1].split(",")
    if "--tier" in sys.argv:
        tier = sys.argv[sys.argv.index("--tier") + 1]
    tag = ""
    if "--tag" in sys.argv:
        tag = sys.argv[sys.argv.index("--tag") + 1]
    patch = os.path.join(src, "m%s.diff" % k)
    demo = os.path.join(src, "demo%s.py" % k)
    note = os.path.join(src, "note%s.md" % k)
    tmp = tempfile.mkdtemp(prefix="vseed_", dir="/tmp")
    meta = {"property": prop, "source": "independent sub-agent given only the property text and a scratch worktree", "verified": {}}
    try:
        dst = os.path.join(tmp, "repo")
        shutil.copytree("/repo", dst, ignore=shutil.ignore_patterns(".git", "__pycache__", "*.pyc"))
        env = dict(os.environ, PYTHONPATH=os.path.join(dst, "src"), PYTHONDONTWRITEBYTECODE="1")
        shutil.copy(demo, os.path.join(tmp, "demo.py"))
        rc0, out0 = sh(["/venv/bin/python", os.path.join(tmp, "demo.py")], cwd=dst, env=env)
        meta["verified"]["demo_exit_without_change"] = rc0
        rc, out = sh(["patch", "-p1", "-s", "-i", patch], cwd=dst)
        meta["verified"]["patch_applies_to_current_repo_head"] = rc == 0
        if rc != 0:
            print("PATCH DOES NOT APPLY:", out[-400:])
            return 1
        rc1, out1 = sh(["/venv/bin/python", os.path.join(tmp, "demo.py")], cwd=dst, env=env)
        meta["verified"]["demo_exit_with_change"] = rc1
        rct, outt = sh(["/venv/bin/python", "-m", "pytest", "-q", "-p", "no:cacheprovider", "--deselect", DESELECT], cwd=dst, env=env)
        last = [l for l in outt.strip().splitlines() if l.strip()][-1]
        meta["verified"]["repo_tests_with_change"] = last
        ok = rc0 == 0 and rc1 != 0 and rct == 0
        meta["verified"]["qualifies"] = ok
        print("demo without=%d with=%d; tests: %s; qualifies=%s" % (rc0, rc1, last, ok))
        res = {}
        for c in checks:
            e2 = dict(os.environ, VERIF_REPO=dst, VERIF_NO_EVIDENCE="1")
            rcc, outc = sh([os.path.join(ROOT, "check"), c, tier], env=e2)
            lines = [l for l in outc.splitlines() if not l.startswith("WARNING conda")]
            first = next((l for l in lines if l.startswith("  clause=")), "")
            res[c] = {"tier": tier, "exit": rcc, "first_violation": first.strip()[:300], "summary": lines[-1][:200] if lines else ""}
            print("check %s %s: exit %d  %s" % (c, tier, rcc, first.strip()[:160]))
        meta["checks"] = res
        meta["detected_by"] = [c for c, r in res.items() if r["exit"] == 1]
        if ok:
            d = os.path.join(ROOT, "seeded", "%s-%sm%s" % (prop, tag, k))
            os.makedirs(d, exist_ok=True)
            shutil.copy(patch, os.path.join(d, "patch.diff"))
            shutil.copy(demo, os.path.join(d, "demo.py"))
            if os.path.exists(note):
                shutil.copy(note, os.path.join(d, "note.md"))
                meta["needs_to_manifest"] = open(note).read()[:1500]
            meta["what_was_run"] = "tools/keepmut.py: scratch copy of /repo at %s; patch -p1; demo.py before/after; full pytest; ./check <id> %s with VERIF_REPO=<copy>" % (
                subprocess.check_output(["git", "-C", "/repo", "log", "--format=%h", "-1"]).decode().strip(), tier)
            json.dump(meta, open(os.path.join(d, "meta.json"), "w"), indent=1)
        return 0
    finally:
        shutil.rmtree(tmp, ignore_errors=True)


if __name__ == "__main__":
    sys.exit(main())
