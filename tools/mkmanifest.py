#!/venv/bin/python
"""Regenerate MANIFEST.json from the check modules' own metadata."""
import importlib
import json
import os
import sys

ROOT = os.path.dirname(os.path.dirname(os.path.abspath(__file__)))
sys.path.insert(0, ROOT)

PENDING_REASON = "not claimed yet: the runtime monitor for this property is still under construction in this round"
# properties that are deliberately not claimed, with the reason (kept in sync with DESIGN.md section 8)
NOT_CLAIMED = {}


TECH = {
 "C01": ("assignment-first generator + reference expectation; oracle over every read path of the returned Args (bounded-exhaustive decision-tree walk for catalogue formats, seeded random for large ones)",
         "held on every generated line: the generator derives the command line from the assignment, so the expected result is known by construction and is computed without calling the parser"),
 "C02": ("exhaustive token-soup enumeration + single-fault mutation of valid lines; oracle on exception class and strict/lenient agreement (results snapshotted at observation time); Command.parse(raw, mode) differential against the parser in the effective mode; one parser and one raw-args object parsed in both modes, both orders, against fresh parsers",
         "exception containment is decided on the complete set of token sequences up to the stated length over an adversarial alphabet; documented errors on lines with exactly one planted fault"),
 "C03": ("reference walk over the configuration tree vs the real resolver, with recording handlers for the nothing-run clause; lines that are a path plus required values must be accepted whatever the parser says; the same argv list wrapped twice",
         "selection, resolved arguments and error messages compared with an independent walk over generated trees and line shapes"),
 "C04": ("outcome matrix through Application.run with recording handlers/streams + sys.monitoring failpoint injection at every line inside the handler's extent; exceptions raised inside the I/O's indentation scopes and by types that provide a solution",
         "fault enumeration: every (file, line) executed while the handler is on the stack is turned into a failpoint for three exception types; status, report and handler-count oracles"),
 "C05": ("history monitor: one parser instance vs pristine-world reference per request, deep snapshots of argv / RawArgs / format listings around every call; a consumer appends to every default list a result hands out",
         "all ordered pairs/triples of a stratified request catalogue plus random histories; purity means equal outcome and unchanged inputs"),
 "C06": ("history monitor against a plain-list model: builder, built format and model answer every public query; atomic rejection by before/after snapshots; constructor parity; the built format re-queried after the builder went on and returned containers were mutated",
         "bounded-exhaustive operation sequences over a colliding name pool on 6 base stacks"),
 "C07": ("exhaustive enumeration of flag words and short names against validity predicates written from the statement; conversion round-trips",
         "the whole flag space (2^13 x 6, 2^11 x 3) is run; names up to length 4/5 over a small alphabet"),
 "C08": ("exhaustive short strings under a sys.monitoring step budget and a process-CPU-time budget (two logical termination monitors) + quote/unquote inverse over generated token lists + string/argv equivalence through parser and resolver",
         "totality and termination on every string up to length 5/7; inverse law on generated token lists with every kind of whitespace separator"),
 "C09": ("io_factory tap + recording handlers and streams; variants of valid lines with switches inserted at every kind of position, control placements after '--' (also with a switch as the last token before it); switch sequences on one application object against fresh applications; the verbosity predicates of I/O and both outputs follow the level",
         "per-switch clauses judged on I/O settings actually built for the run and on the bytes written"),
 "C10": ("reflection-discovered writing methods x complete truth table (verbosity x flags x quiet x formatter x object kind incl. section I/Os of every I/O kind), bytes observed at a recording stream; random histories with unique message ids over separately gated outputs and live sections (a suppressed id never appears, then or later)",
         "exhaustive table; a method added later is picked up by the probing step"),
 "C11": ("markup AST generator with per-character SGR interpreter; exhaustive colour/attribute table through three supply routes; reflection over *_line methods; nested indentation scopes (set and increment, also on one output serving both streams) with exceptional exits",
         "four boundary monitors at formatter/stream level"),
 "C12": ("history monitor against a list model; listeners are logging closures (plain, stopping, registering, raising, bound methods of unreferenced objects); prefix-closed exhaustive enumeration incl. cache-filling queries; odd event names; application events with listeners reading the event payload",
         "every sequence up to length 4/5 over 20 operations plus random long histories"),
 "C13": ("unique-substring membership oracle over rendered help pages, width bound (incl. texts whose length sits at the terminal width), and byte comparison of 'help <path>' with '<path> --help' through Application.run",
         "generated configurations with every element named uniquely as a substring"),
 "C14": ("per-column alphabets attribute every rendered character to its column; oracles for width, rectangle, border offsets / column spans, per-column text preservation, table immutability (second render, refused rows, styles added to the formatter later)",
         "seeded random tables over length-class profiles that drive the width distribution"),
 "C15": ("terminal emulator (deferred auto-wrap) replaying the recorded byte stream vs a stacked-sections screen model, one screen per output in two-output histories with flag words; one-column non-ASCII lines; plain degradation oracle",
         "enumeration of all applicable operation sequences to depth 4/5 at two widths plus random histories"),
 "C16": ("virtual clock installed before clikit is imported; frames = writes between flushes, stamped with virtual time; state model + per-frame clauses (full bar after finish); emulator residue check, also for section bars on a terminal exactly as wide as the frame with a title above",
         "all operation sequences to length 4/5 on a configuration grid plus random sequences to length 60"),
 "C17": ("reused-vs-fresh application histories (incl. a shared parser object, a command lenient by overridden default, tokens with blanks inside, styles registered at run time, a command owning its question); triple renders; creation-order experiments each in a pristine subprocess",
         "all histories of length 2(-3) over an 18-line catalogue, with fresh and reused RawArgs objects"),
 "C18": ("scripted InputStream with read budget (logical termination), recording outputs, dialogue model; re-ask histories on one question object against new objects; refilled input after an end-of-input abort; every fifth script read through the library's file-stream wrapper; PATH isolated so that the line-reading path is taken",
         "all answer scripts up to length 2/3 over a 15-entry alphabet x 132 configurations"),
 "C19": ("deterministic token-passing scheduler substituted for threading/time (every write, sleep, event op, lock acquire/release, start, join is a scheduling point; 'no thread can run' = deadlock verdict); depth-first schedule enumeration with a pre-emption bound, random schedules, trace replay on the emulator (variants: plain, indented, empty end message, file-backed stream with a 5000-character message, stream failing on the error path); manual mode on virtual time incl. chosen formats on mixed I/Os; independent real-thread stress engine",
         "all schedules within the pre-emption bound for each program; verdicts on logical steps, wall-clock only as an inconclusive watchdog"),
 "C20": ("generated failing modules (unique files, odd paths, Latin-1 / wide scripts) and 19 unusual exception objects (solutions, groups, BaseException subclasses) rendered at every verbosity, also exceptions that were never raised; snippet oracle from Python's own tokenize; ignore-filter oracle; highlighter over a corpus of real files",
         "seeded random modules, messages, recursion depths and I/O capabilities; corpus = repository, tests, 300 stdlib modules"),
}

props = [json.loads(l)["id"] for l in open(os.path.join(ROOT, "properties.jsonl"))]
checks = []
na = []
for pid in props:
    path = os.path.join(ROOT, "rv", "checks", pid.lower() + ".py")
    if pid in NOT_CLAIMED or not os.path.exists(path):
        na.append({"property_id": pid, "reason": NOT_CLAIMED.get(pid, PENDING_REASON)})
        continue
    m = importlib.import_module("rv.checks." + pid.lower())
    c = {
        "property_id": pid,
        "quick_cmd": "./check %s quick" % pid,
        "thorough_cmd": "./check %s thorough" % pid,
        "evidence_file": "/verif/evidence/%s.json" % pid,
        "replay_cmd_template": "./check %s --replay {path}" % pid,
        "engine": "rv",
        "level_claimed": {
            "category": getattr(m, "LEVEL", "exploration"),
            "text": "Runtime monitoring: " + TECH[pid][1] + ". The oracle observes executions of the real code in /repo/src; 'held' means held on the executions counted in the evidence file, nothing is claimed about inputs, histories or schedules the workload did not produce.",
            "design_ref": "DESIGN.md section 4, %s" % pid,
        },
        "level_note": "Trusted: the oracle / reference model in rv/checks/%s.py, the generators in rv/gen and instruments in rv/instruments, CPython 3.12 and the third-party packages pastel, pylev and crashtest as installed in /venv. Assumptions the oracle makes are listed in the evidence file (assumptions) and in DESIGN.md sections 4 and 9." % pid.lower(),
        "technique": "runtime monitoring: " + TECH[pid][0],
    }
    checks.append(c)

manifest = {
    "version": 1,
    "setup_cmd": "mkdir -p out evidence && /venv/bin/python -B -c \"import sys; sys.path.insert(0, '.'); import rv.runner\"",
    "hooks": {
        "guard": "CLIKIT_VERIF",
        "enable": "no source hooks: every monitor attaches from outside (recording streams, patched time/threading before import, sys.monitoring); checks import /repo/src directly (VERIF_REPO=/repo) and export CLIKIT_VERIF=1, which nothing in the repository reads",
        "baseline_off_cmd": "cd /repo && /venv/bin/python -m pytest -ra -q -p no:cacheprovider --timeout=900 --continue-on-collection-errors",
        "source_commits": [],
        "add_only": True,
    },
    "engines": [
        {
            "name": "rv",
            "path": "rv/",
            "serves_properties": [c["property_id"] for c in checks],
            "kind_free_text": "runtime-verification harness: sharded subprocess runner, boundary recorders, reference models, terminal emulator, virtual clock, deterministic thread scheduler, sys.monitoring fault injector",
        }
    ],
    "checks": checks,
    "not_applicable": na,
    "notes": "All checks are runtime monitors over executions of the code in /repo/src (working tree). Exit 0 held / 1 VIOLATION / 2 INCONCLUSIVE. known-findings.txt lists genuine defects recorded rather than repaired and the defects repaired by fix: commits.",
}
with open(os.path.join(ROOT, "MANIFEST.json"), "w") as f:
    json.dump(manifest, f, indent=1)
    f.write("\n")
print("checks:", [c["property_id"] for c in checks], "not claimed:", [n["property_id"] for n in na])
