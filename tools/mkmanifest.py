#!/venv/bin/python
"""Regenerate MANIFEST.json from the check modules' own metadata."""
import importlib
import json
import os
import sys

ROOT = os.path.dirname(os.path.dirname(os.path.abspath(__file__)))
sys.path.insert(0, ROOT)

PENDING_REASON = "not claimed yet: the runtime monitor for this property is still under construction in this round"
# properties that are deliberately not claimed, with the reason (kept in sync with DESIGN.md section 8)
NOT_CLAIMED = {}

props = [json.loads(l)["id"] for l in open(os.path.join(ROOT, "properties.jsonl"))]
checks = []
na = []
for pid in props:
    path = os.path.join(ROOT, "rv", "checks", pid.lower() + ".py")
    if pid in NOT_CLAIMED or not os.path.exists(path):
        na.append({"property_id": pid, "reason": NOT_CLAIMED.get(pid, PENDING_REASON)})
        continue
    m = importlib.import_module("rv.checks." + pid.lower())
    c = {
        "property_id": pid,
        "quick_cmd": "./check %s quick" % pid,
        "thorough_cmd": "./check %s thorough" % pid,
        "evidence_file": "/verif/evidence/%s.json" % pid,
        "replay_cmd_template": "./check %s --replay {path}" % pid,
        "engine": "rv",
        "level_claimed": {
            "category": getattr(m, "LEVEL", "exploration"),
            "text": getattr(m, "LEVEL_TEXT", "An oracle written from the property statement judges every execution of the real code that the workload produces; held means held on the executions counted in the evidence file."),
            "design_ref": "DESIGN.md section 4, %s" % pid,
        },
        "level_note": getattr(m, "LEVEL_NOTE", "Trusted: the oracle / reference model in rv/checks/%s.py, the generators in rv/gen, CPython 3.12 and the third-party packages pastel, pylev and crashtest as installed in /venv." % pid.lower()),
        "technique": getattr(m, "TECHNIQUE", "runtime monitoring: oracle over generated and enumerated executions of the real code"),
    }
    checks.append(c)

manifest = {
    "version": 1,
    "setup_cmd": "mkdir -p out evidence && /venv/bin/python -B -c \"import sys; sys.path.insert(0, '.'); import rv.runner\"",
    "hooks": {
        "guard": "CLIKIT_VERIF",
        "enable": "no source hooks: every monitor attaches from outside (recording streams, patched time/threading before import, sys.monitoring); checks import /repo/src directly (VERIF_REPO=/repo) and export CLIKIT_VERIF=1, which nothing in the repository reads",
        "baseline_off_cmd": "cd /repo && /venv/bin/python -m pytest -ra -q -p no:cacheprovider --timeout=900 --continue-on-collection-errors",
        "source_commits": [],
        "add_only": True,
    },
    "engines": [
        {
            "name": "rv",
            "path": "rv/",
            "serves_properties": [c["property_id"] for c in checks],
            "kind_free_text": "runtime-verification harness: sharded subprocess runner, boundary recorders, reference models, terminal emulator, virtual clock, deterministic thread scheduler, sys.monitoring fault injector",
        }
    ],
    "checks": checks,
    "not_applicable": na,
    "notes": "All checks are runtime monitors over executions of the code in /repo/src (working tree). Exit 0 held / 1 VIOLATION / 2 INCONCLUSIVE. known-findings.txt lists genuine defects recorded rather than repaired and the defects repaired by fix: commits.",
}
with open(os.path.join(ROOT, "MANIFEST.json"), "w") as f:
    json.dump(manifest, f, indent=1)
    f.write("\n")
print("checks:", [c["property_id"] for c in checks], "not claimed:", [n["property_id"] for n in na])
