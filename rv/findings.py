"""known-findings.txt: committed, line oriented, never written at run time.

    finding: property=C14 key=<classifier-key> <what fails>
    fixed:   property=C05 <commit> <what failed>

Only ``finding`` lines suppress anything, and only violations whose check
computed the same classifier key *from the generated case*.
"""
import os
import re


def load(path):
    out = {}
    if not os.path.exists(path):
        return out
    with open(path) as f:
        for line in f:
            line = line.strip()
            m = re.match(r"^finding:\s+property=(C\d+)\s+key=(\S+)\s+(.*)$", line)
            if m:
                out.setdefault(m.group(1), {})[m.group(2)] = m.group(3)
    return out
