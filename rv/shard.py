"""Per-shard bookkeeping and the shard subprocess entry point.

A check module (rv/checks/cNN.py) provides

    PROPERTY = "C07"
    def plan(tier, seed) -> list[dict]      # one JSON-able spec per shard
    def run(sh: Shard, spec: dict) -> None  # drives the real code, judges with sh.*
    def replay(sh: Shard, case: dict) -> None  # re-judges one recorded case

The runner starts ``python -m rv.shard <id> <spec.json> <out.json>`` once per
spec (subprocess.run with a timeout; never multiprocessing.Pool).
"""
import array
import faulthandler
import importlib
import json
import os
import random
import sys
import time
import traceback

MAX_VIOL_PER_BUCKET = 6
MAX_SAMPLES = 4


class Shard(object):
    def __init__(self, prop, tier, seed, index=0):
        self.prop = prop
        self.tier = tier
        self.seed = seed
        self.index = index
        self.rng = random.Random((seed * 1000003) ^ (index * 7919) ^ 0x5EED)
        self.evaluations = 0
        self.distinct = set()
        self.violations = []
        self.viol_counts = {}
        self.counters = {}
        self.tags = {}
        self.samples = []
        self.inconclusive = []
        self.notes = {}

    # -- counting ---------------------------------------------------------
    def case(self, shape=None, nontrivial=False, n=1):
        """One execution judged by the oracle. ``shape`` is the abstract shape
        used for distinctness; only non-trivial shapes are recorded."""
        self.evaluations += n
        if nontrivial and shape is not None:
            self.distinct.add(hash(shape))

    def count(self, name, n=1):
        self.counters[name] = self.counters.get(name, 0) + n

    def tag(self, name, value):
        self.tags.setdefault(name, set()).add(value)

    def sample(self, case):
        if len(self.samples) < MAX_SAMPLES:
            self.samples.append(case)

    def note(self, name, value):
        self.notes[name] = value

    # -- verdicts ---------------------------------------------------------
    def violate(self, clause, case, detail, key=None):
        """Record a violation of ``clause`` witnessed by ``case``.  ``key`` is
        the classifier key computed *from the case* when the witness falls in
        the class of a mechanism-keyed known finding, else None."""
        bucket = "%s|%s" % (clause, key)
        c = self.viol_counts.get(bucket, 0)
        self.viol_counts[bucket] = c + 1
        if c < MAX_VIOL_PER_BUCKET:
            self.violations.append(
                {"clause": clause, "key": key, "case": case, "detail": str(detail)[:1500]}
            )

    def inconclusive_because(self, reason):
        if reason not in self.inconclusive:
            self.inconclusive.append(reason)

    # -- serialisation ----------------------------------------------------
    def dump(self, path):
        hpath = path + ".hashes"
        with open(hpath, "wb") as f:
            array.array("q", sorted(self.distinct)).tofile(f)
        out = {
            "evaluations": self.evaluations,
            "hashes": hpath,
            "violations": self.violations,
            "viol_counts": self.viol_counts,
            "counters": self.counters,
            "tags": {k: sorted(v, key=repr) for k, v in self.tags.items()},
            "samples": self.samples,
            "inconclusive": self.inconclusive,
            "notes": self.notes,
        }
        with open(path, "w") as f:
            json.dump(out, f, default=repr)


def _start_anchor_coverage(files):
    """Informational only: which lines of the property's anchored files the workload reached.
    Uses the coverage package of the repository's interpreter when present (sys.monitoring core)."""
    if not files or os.environ.get("VERIF_ANCHOR_COVERAGE", "1") == "0":
        return None
    try:
        os.environ.setdefault("COVERAGE_CORE", "sysmon")
        import coverage

        cov = coverage.Coverage(data_file=None, include=list(files), branch=False, config_file=False)
        cov.start()
        return cov
    except Exception:
        return None


def _stop_anchor_coverage(cov, sh, files):
    if cov is None:
        return
    try:
        cov.stop()
        out = {}
        for f in files:
            try:
                _, statements, _, missing, _ = cov.analysis2(f)
            except Exception:
                continue
            out[f] = {"statements": list(statements), "missing": list(missing)}
        sh.note("anchor_coverage", out)
    except Exception:
        pass


def load_check(prop):
    return importlib.import_module("rv.checks.%s" % prop.lower())


def main(argv):
    prop, spec_path, out_path = argv[1:4]
    with open(spec_path) as f:
        spec = json.load(f)
    watchdog = float(spec.get("_watchdog", 1500))
    faulthandler.enable()
    faulthandler.dump_traceback_later(watchdog, exit=True)
    sh = Shard(prop, spec["_tier"], spec["_seed"], spec.get("_index", 0))
    mod = load_check(prop)
    cov = _start_anchor_coverage(spec.get("_anchor_files"))
    t0 = time.perf_counter()
    try:
        if "_replay" in spec:
            mod.replay(sh, spec["_replay"])
        else:
            mod.run(sh, spec)
    except BaseException:
        # a crash of the harness itself is never a verdict about the code
        sh.inconclusive_because("harness error: " + traceback.format_exc()[-1800:])
    _stop_anchor_coverage(cov, sh, spec.get("_anchor_files"))
    sh.note("wall_s", time.perf_counter() - t0)
    sh.dump(out_path)
    faulthandler.cancel_dump_traceback_later()
    if sh.notes.get("leaked_threads"):
        # a leaked non-daemon thread of the code under test would keep this process alive
        sys.stdout.flush()
        os._exit(0)
    return 0


if __name__ == "__main__":
    sys.exit(main(sys.argv))
