"""Tiered runner: plans shards, runs them as subprocesses, merges what the
monitors observed, classifies violations against known-findings.txt, writes the
evidence file and prints the verdict.

exit 0  held on everything explored (possibly with KNOWN-FINDING lines)
exit 1  VIOLATION property=<id> replay=<path>
exit 2  INCONCLUSIVE property=<id> reason=<...>   (monitor saw too little / harness trouble)
"""
import array
import hashlib
import json
import os
import shutil
import subprocess
import sys
import time
from concurrent.futures import ThreadPoolExecutor

ROOT = os.path.dirname(os.path.dirname(os.path.abspath(__file__)))
sys.path.insert(0, ROOT)

from rv import findings as findings_mod  # noqa: E402
from rv.shard import load_check  # noqa: E402

PY = sys.executable


def _run_one(prop, spec, workdir, i, timeout):
    spec_path = os.path.join(workdir, "spec%03d.json" % i)
    out_path = os.path.join(workdir, "out%03d.json" % i)
    with open(spec_path, "w") as f:
        json.dump(spec, f)
    env = dict(os.environ)
    env["PYTHONHASHSEED"] = "0"
    env["PYTHONDONTWRITEBYTECODE"] = "1"
    env["PYTHONPATH"] = ROOT
    env.setdefault("VERIF_REPO", "/repo")
    env["CLIKIT_VERIF"] = "1"
    env.update(spec.get("_env", {}))
    t0 = time.perf_counter()
    try:
        p = subprocess.run(
            [PY, "-B", "-m", "rv.shard", prop, spec_path, out_path],
            cwd=ROOT,
            env=env,
            stdout=subprocess.PIPE,
            stderr=subprocess.PIPE,
            timeout=timeout,
        )
        rc, err = p.returncode, p.stderr.decode("utf-8", "replace")
    except subprocess.TimeoutExpired as e:
        rc, err = -999, "timeout after %ss: %s" % (timeout, (e.stderr or b"").decode("utf-8", "replace")[-800:])
    res = None
    if os.path.exists(out_path):
        try:
            with open(out_path) as f:
                res = json.load(f)
        except Exception as e:  # pragma: no cover
            err += "\nunreadable shard output: %r" % (e,)
    return {"i": i, "rc": rc, "err": err[-2000:], "res": res, "wall": time.perf_counter() - t0}


def main(argv):
    args = [a for a in argv[1:] if not a.startswith("--")]
    if not args:
        print("usage: check <ID> [quick|thorough] [--replay PATH]")
        return 2
    prop = args[0].upper()
    tier = args[1] if len(args) > 1 else os.environ.get("VERIF_TIER", "quick")
    if tier not in ("quick", "thorough"):
        tier = "quick"
    seed = int(os.environ.get("VERIF_SEED", "0") or 0)
    replay_path = None
    if "--replay" in argv:
        replay_path = argv[argv.index("--replay") + 1]

    mod = load_check(prop)
    t0 = time.perf_counter()
    workdir = os.path.join(ROOT, "out", "run", "%s-%s-%d" % (prop, tier, os.getpid()))
    shutil.rmtree(workdir, ignore_errors=True)
    os.makedirs(workdir)

    if replay_path:
        with open(replay_path) as f:
            rec = json.load(f)
        specs = [{"_replay": rec["case"], "_tier": tier, "_seed": rec.get("seed", seed), "_index": 0}]
    else:
        specs = mod.plan(tier, seed)
        for i, s in enumerate(specs):
            s["_tier"] = tier
            s["_seed"] = seed
            s["_index"] = i
    anchor_files = _anchor_files(prop)
    for s in specs:
        s["_anchor_files"] = anchor_files
    shard_timeout = getattr(mod, "SHARD_TIMEOUT", {"quick": 420, "thorough": 3000})[tier]
    for s in specs:
        s["_watchdog"] = shard_timeout - 20

    jobs = int(os.environ.get("VERIF_JOBS", "0") or 0) or min(len(specs), os.cpu_count() or 4, 16)
    with ThreadPoolExecutor(max_workers=jobs) as ex:
        results = list(ex.map(lambda t: _run_one(prop, t[1], workdir, t[0], shard_timeout), enumerate(specs)))

    # ---- merge ----------------------------------------------------------
    evaluations = 0
    distinct = set()
    violations = []
    viol_counts = {}
    counters = {}
    tags = {}
    samples = []
    inconclusive = []
    notes = []
    for r in results:
        res = r["res"]
        if res is None:
            inconclusive.append("shard %d produced no result (rc=%s): %s" % (r["i"], r["rc"], r["err"][-600:]))
            continue
        if r["rc"] != 0:
            inconclusive.append("shard %d exit status %s: %s" % (r["i"], r["rc"], r["err"][-600:]))
        evaluations += res["evaluations"]
        try:
            a = array.array("q")
            with open(res["hashes"], "rb") as f:
                a.frombytes(f.read())
            distinct.update(a)
        except Exception as e:
            inconclusive.append("shard %d hashes unreadable: %r" % (r["i"], e))
        violations.extend(res["violations"])
        for k, v in res["viol_counts"].items():
            viol_counts[k] = viol_counts.get(k, 0) + v
        for k, v in res["counters"].items():
            counters[k] = counters.get(k, 0) + v
        for k, v in res["tags"].items():
            tags.setdefault(k, set()).update(map(_freeze, v))
        for s in res["samples"]:
            if len(samples) < 6:
                samples.append(s)
        inconclusive.extend(res["inconclusive"])
        notes.append(res.get("notes", {}))

    merged = {
        "evaluations": evaluations,
        "distinct": len(distinct),
        "counters": counters,
        "tags": tags,
        "notes": notes,
        "tier": tier,
    }
    extra_cov = {}
    anchor = {}
    for n in notes:
        for f, d in (n.get("anchor_coverage") or {}).items():
            a = anchor.setdefault(f, {"statements": set(d["statements"]), "missing": set(d["missing"])})
            a["missing"] &= set(d["missing"])
    if anchor:
        rel = {}
        for f, a in sorted(anchor.items()):
            rel[os.path.relpath(f, os.environ.get("VERIF_REPO", "/repo"))] = {
                "statements": len(a["statements"]), "executed": len(a["statements"]) - len(a["missing"]), "never_executed": sorted(a["missing"])[:40]}
        extra_cov["anchor_lines"] = rel
        extra_cov["anchor_lines_note"] = "informational: statement lines of the property's anchored files executed by this run's workload (coverage.py); never part of a verdict"
    if hasattr(mod, "finalize") and not replay_path:
        fin = mod.finalize(tier, merged) or {}
        inconclusive.extend(fin.get("inconclusive", []))
        extra_cov.update(fin.get("coverage", {}))

    # ---- classify -------------------------------------------------------
    known = findings_mod.load(os.path.join(ROOT, "known-findings.txt")).get(prop, {})
    seen_known = {}
    new = []
    for v in violations:
        if v.get("key") and v["key"] in known:
            seen_known[v["key"]] = seen_known.get(v["key"], 0) + 1
        else:
            new.append(v)
    for bucket, n in viol_counts.items():
        key = bucket.split("|", 1)[1]
        if key in known:
            seen_known[key] = max(seen_known.get(key, 0), n)

    replay_dir = os.path.join(ROOT, "out", "replay", prop)
    os.makedirs(replay_dir, exist_ok=True)
    new_paths = []
    for v in new[:40]:
        blob = json.dumps({"property": prop, "seed": seed, "tier": tier, "clause": v["clause"], "key": v.get("key"),
                           "case": v["case"], "detail": v["detail"]}, indent=1, sort_keys=True, default=repr)
        h = hashlib.sha1(blob.encode()).hexdigest()[:12]
        path = os.path.join(replay_dir, "%s.json" % h)
        with open(path, "w") as f:
            f.write(blob)
        new_paths.append((path, v))

    wall = time.perf_counter() - t0
    # ---- evidence -------------------------------------------------------
    if not replay_path and not os.environ.get("VERIF_NO_EVIDENCE"):
        cov = {
            "evaluations": evaluations,
            "distinct_nontrivial": len(distinct),
            "rule": getattr(mod, "RULE", ""),
            "samples": samples if samples else ["(no sample recorded)"],
            "exhaustive": bool(getattr(mod, "EXHAUSTIVE", {}).get(tier, False)) if isinstance(getattr(mod, "EXHAUSTIVE", None), dict) else bool(getattr(mod, "EXHAUSTIVE", False)),
            "monitor_events": counters,
            "classes": {k: sorted(map(str, v))[:60] for k, v in tags.items()},
            "shards": len(specs),
            "known_findings_seen": seen_known,
            "violation_buckets": viol_counts,
            "inconclusive": inconclusive[:10],
        }
        bound = getattr(mod, "BOUND", None)
        if isinstance(bound, dict):
            cov["bound"] = bound.get(tier, "")
        cov.update(extra_cov)
        ev = {
            "property_id": prop,
            "tier": tier,
            "seed": seed,
            "level": getattr(mod, "LEVEL", "exploration"),
            "coverage": cov,
            "assumptions": list(getattr(mod, "ASSUMPTIONS", [])),
            "wall_s": round(wall, 2),
            "violations": len(new),
        }
        os.makedirs(os.path.join(ROOT, "evidence"), exist_ok=True)
        with open(os.path.join(ROOT, "evidence", "%s.json" % prop), "w") as f:
            json.dump(ev, f, indent=1, sort_keys=True, default=repr)
            f.write("\n")

    # ---- verdict --------------------------------------------------------
    for key in sorted(known):
        print("KNOWN-FINDING: property=%s %s: %s (observed %d time(s) in this run)" % (prop, key, known[key], seen_known.get(key, 0)))
    if new:
        for path, v in new_paths[:12]:
            print("VIOLATION property=%s replay=%s" % (prop, path))
            print("  clause=%s detail=%s" % (v["clause"], v["detail"][:300].replace("\n", " | ")))
        total_new = sum(n for b, n in viol_counts.items() if b.split("|", 1)[1] not in known)
        print("%s: %d violation(s) in %d bucket(s); evaluations=%d wall=%.1fs" % (prop, total_new, len([b for b in viol_counts if b.split('|', 1)[1] not in known]), evaluations, wall))
        _cleanup(workdir)
        return 1
    if inconclusive:
        for r in inconclusive[:5]:
            print("INCONCLUSIVE property=%s reason=%s" % (prop, r.replace("\n", " | ")[:600]))
        _cleanup(workdir, keep=True)
        return 2
    if replay_path:
        print("REPLAY property=%s: no violation reproduced" % prop)
    else:
        print("HELD property=%s tier=%s seed=%d evaluations=%d distinct_nontrivial=%d shards=%d wall=%.1fs" % (prop, tier, seed, evaluations, len(distinct), len(specs), wall))
    _cleanup(workdir)
    return 0


def _anchor_files(prop):
    repo_root = os.path.abspath(os.environ.get("VERIF_REPO", "/repo"))
    try:
        with open(os.path.join(ROOT, "properties.jsonl")) as f:
            for line in f:
                d = json.loads(line)
                if d["id"] == prop:
                    return [os.path.join(repo_root, p) for p in d["anchors"].get("files", []) if os.path.exists(os.path.join(repo_root, p))]
    except Exception:
        pass
    return []


def _freeze(x):
    if isinstance(x, list):
        return tuple(_freeze(i) for i in x)
    return x


def _cleanup(workdir, keep=False):
    if not keep and not os.environ.get("VERIF_KEEP"):
        shutil.rmtree(workdir, ignore_errors=True)


if __name__ == "__main__":
    sys.exit(main(sys.argv))
