"""Choice sources for generators.

A generator takes a *chooser* and asks it for every decision.  RandomChooser
answers from a seeded PRNG; EnumChooser replays a prefix of decisions and
enumerates the whole decision tree depth-first, so the same generator serves
the seeded-random and the bounded-exhaustive workloads.
"""


class RandomChooser(object):
    exhaustive = False

    def __init__(self, rng):
        self.rng = rng

    def index(self, n):
        return self.rng.randrange(n)

    def choice(self, seq):
        return seq[self.rng.randrange(len(seq))]

    def randint(self, a, b):
        return self.rng.randint(a, b)

    def flip(self, p=0.5):
        return self.rng.random() < p

    def shuffled(self, seq):
        seq = list(seq)
        self.rng.shuffle(seq)
        return seq

    def subset(self, seq, p=0.5):
        return [x for x in seq if self.rng.random() < p]


class EnumChooser(object):
    """Depth-first enumeration of every decision sequence of a generator."""

    exhaustive = True

    def __init__(self):
        self.prefix = []
        self.trace = []

    def index(self, n):
        i = len(self.trace)
        k = self.prefix[i] if i < len(self.prefix) else 0
        if k >= n:  # generator not deterministic in its choice structure
            k = n - 1
        self.trace.append((k, n))
        return k

    def choice(self, seq):
        return seq[self.index(len(seq))]

    def randint(self, a, b):
        return a + self.index(b - a + 1)

    def flip(self, p=0.5):
        return bool(self.index(2))

    def shuffled(self, seq):
        out = []
        for x in seq:
            out.insert(self.index(len(out) + 1), x)
        return out

    def subset(self, seq, p=0.5):
        return [x for x in seq if self.index(2)]

    def advance(self):
        """Prepare the next decision sequence; False when the tree is done."""
        t = self.trace
        while t and t[-1][0] + 1 >= t[-1][1]:
            t.pop()
        if not t:
            return False
        self.prefix = [k for k, _ in t[:-1]] + [t[-1][0] + 1]
        self.trace = []
        return True


def enumerate_all(fn, limit=None):
    """Yield fn(chooser) for every decision sequence (up to ``limit``).
    The final yielded item is followed by StopIteration; ``done`` attribute of
    the returned generator is not available, so callers use enumerate_count."""
    ch = EnumChooser()
    n = 0
    while True:
        yield fn(ch)
        n += 1
        if limit is not None and n >= limit:
            return
        if not ch.advance():
            return
