"""Generator of command trees (configurations) and builder of real applications
from them.  Shared by C03, C04, C09, C13, C17.

A node is a JSON-able dict:
  name, aliases, kind in {plain, default, anon, hidden, disabled},
  args = [{name, kind: req|opt, multi, desc, default}], opts = [{long, short, mode, desc, default}],
  desc (command description or None), help, subs = [...]

Rules obeyed (they are what makes a tree *valid* for the library): names and
aliases are unique in the whole tree; a command's format is stacked on its
parent's, so only commands without sub-commands carry optional or multi-valued
arguments; default / anonymous commands are leaves (what "the default of a
default" means is not stated by any property); option names are unique along
every root-to-leaf path (globally unique here).
"""

SHORT_POOL = "abcdefgijklmoprstuwxyzABCDEFGIJKLMOPRSTUWXYZ"  # without h q v V n (global switches)


class Namer(object):
    def __init__(self):
        self.n = 0
        self.shorts = list(SHORT_POOL)

    def cmd(self):
        self.n += 1
        return "c%02dx" % self.n

    def short(self, ch):
        if self.shorts and ch.flip(0.6):
            return self.shorts.pop(ch.index(len(self.shorts)))
        return None


DESCS = [None, "", "short text", "three lines\nof description\ntext here",
         ("a long description with a " + "w" * 60 + " word in it and many more words " * 8).strip()]


def gen_node(ch, nm, depth, max_depth, fan, rich, parent_has_rest=False):
    name = nm.cmd()
    kind = ch.choice(["plain", "plain", "plain", "default", "anon", "hidden", "disabled"])
    node = dict(name=name, aliases=["k%s%d" % (name[1:3], i) for i in range(ch.randint(0, 2))], kind=kind, args=[], opts=[], subs=[],
                desc=ch.choice(DESCS) if rich else "about " + name, help=None)
    if rich and ch.flip(0.3):
        node["help"] = ch.choice(["Run {script_name} %s to do things." % name, "Plain help text without placeholder.",
                                  # help texts are free text: JSON examples, set notation, format strings
                                  'Pass JSON such as {"key": 1} or an empty object {}.', "Use {name} and {0} as placeholders of your own.", "A lone brace { or } is text.",
                                  "Attribute-like {command_name.upper} and index-like {script_name[0]} {script_name[x]} spellings are text too."])
    leaf = depth >= max_depth or kind in ("default", "anon") or ch.flip(0.35)
    if not leaf:
        for _ in range(ch.randint(1, fan)):
            node["subs"].append(gen_node(ch, nm, depth + 1, max_depth, fan, rich))
    # parameters
    dsc = (lambda: ch.choice(DESCS)) if rich else (lambda: "text")
    if node["subs"]:
        if ch.flip(0.3):
            node["args"].append(dict(name=name + "req", kind="req", multi=False, desc=dsc(), default=None))
    else:
        for i in range(ch.choice([0, 0, 1, 2])):
            node["args"].append(dict(name="%sreq%d" % (name, i), kind="req", multi=False, desc=dsc(), default=None))
        if ch.flip(0.3):
            node["args"].append(dict(name=name + "opt", kind="opt", multi=False, desc=dsc(), default=ch.choice([None, "dv"] + ([7, 0, 2.5, True] if rich else []))))
        if ch.flip(0.6):
            node["args"].append(dict(name=name + "rest", kind="opt", multi=True, desc=dsc(), default=None))
    for i in range(ch.choice([0, 1, 1, 2, 3]) if rich else ch.choice([0, 1, 2])):
        mode = ch.choice(["flag", "flag", "req", "opt", "multi"])
        default = None
        if mode == "opt" and ch.flip(0.5):
            default = ch.choice(["od", 5, 0, False, 1.5]) if rich else "od"
        elif mode == "req" and ch.flip(0.3):
            default = ch.choice(["rd", 9, 0.5]) if rich else "rd"
        elif mode == "multi" and ch.flip(0.3):
            default = ch.choice([["m1", "m2"], [1, 2], []]) if rich else ["m1", "m2"]
        short = nm.short(ch)
        node["opts"].append(dict(long="%so%d" % (name, i), short=short, mode=mode, desc=dsc(), default=default,
                                 prefer=ch.choice(["auto", "long", "short"]) if short else "auto"))
    if node["subs"] and not rich and ch.flip(0.35):
        # an option spelled like one of the command's own sub-commands (different namespaces: valid)
        sub = ch.choice(node["subs"])
        node["opts"].append(dict(long=ch.choice([sub["name"]] + sub["aliases"]), short=None, mode="flag", desc="like a sub-command", default=None,
                                 prefer="auto", shadows=sub["name"]))
    return node


def gen_tree(ch, max_depth=3, fan=3, rich=False, top=None):
    nm = Namer()
    return [gen_node(ch, nm, 1, max_depth, fan, rich) for _ in range(top or ch.randint(1, 3))]


def walk(nodes, prefix=()):
    """Yields (path of nodes, node) for every enabled node, parents first."""
    for n in nodes:
        if n["kind"] == "disabled":
            continue
        p = prefix + (n,)
        yield p, n
        for x in walk(n["subs"], p):
            yield x


def tree_shape(nodes):
    return tuple((n["kind"], len(n["aliases"]), tuple((a["kind"], a["multi"]) for a in n["args"]), tuple(o["mode"] for o in n["opts"]),
                  tree_shape(n["subs"])) for n in nodes)


def depth_of(nodes):
    return 0 if not nodes else 1 + max(depth_of(n["subs"]) for n in nodes)


# ---------------------------------------------------------------------------
class HandlerLog(object):
    """Handlers generated per command record what they were given, then do
    what ``behaviour(command_full_name, args, io)`` prescribes."""

    STYLES = ("instance", "factory", "callback", "method", "partial", "class", "bound-factory")

    def __init__(self):
        self.calls = []
        self.behaviour = None
        self.made = 0  # set before building to start the rotation elsewhere
        self.styles = {}

    def install(self, cfg, node, full_name):
        """Gives the command its handler in one of the ways the library supports, in rotation: a handler object, a
        callable returning one (a lambda, a functools.partial of the handler class, the handler class itself, a bound
        method - called at each access), a CallbackHandler around a plain function (which is not given the command),
        and a handler object with a configured method name."""
        log = self

        class Named(object):
            full_name = None

        named = Named()
        named.full_name = full_name

        def record(args, io, command):
            log.calls.append(dict(
                command=command.full_name, arguments=args.arguments(True), options=args.options(False),
                verbosity=io.verbosity, quiet=io.is_quiet(), interactive=io.is_interactive(),
                ansi_out=io.output.supports_ansi(), ansi_err=io.error_output.supports_ansi(),
            ))
            if log.behaviour is not None:
                return log.behaviour(command, args, io)
            return 0

        class H(object):
            def handle(self, args, io, command):
                return record(args, io, command)

        class M(object):
            def execute(self, args, io, command):
                return record(args, io, command)

        style = self.STYLES[self.made % len(self.STYLES)]
        self.made += 1
        self.styles[full_name] = style
        if style == "instance":
            cfg.set_handler(H())
        elif style == "factory":
            cfg.set_handler(lambda: H())
        elif style == "callback":
            from clikit.handler.callback_handler import CallbackHandler

            cfg.set_handler(CallbackHandler(lambda args, io: record(args, io, named)))
        elif style == "partial":
            import functools

            class HD(object):
                def __init__(self, dependency):
                    self.dependency = dependency

                def handle(self, args, io, command):
                    return record(args, io, command)

            cfg.set_handler(functools.partial(HD, "a dependency"))
        elif style == "class":
            cfg.set_handler(H)  # the class itself is the factory
        elif style == "bound-factory":
            class Factory(object):
                def make(self):
                    return H()

            cfg.set_handler(Factory().make)
        else:
            cfg.set_handler(M())
            cfg.set_handler_method("execute")


_ROTATION = [0]


def register_children(cfg, nodes, api, log, prefix, sub):
    """Registers the (sub-)command configurations through one of the public ways, in rotation: one call per
    configuration, one call with a list, one call with a generator, create_(sub_)command(name) + configuring
    the returned object, or creating all and configuring each through edit_(sub_)command(name)."""
    if not nodes:
        return
    _ROTATION[0] += 1
    how = _ROTATION[0] % 5
    if how == 3:
        for n in nodes:
            c = cfg.create_sub_command(n["name"]) if sub else cfg.create_command(n["name"])
            configure_command(c, n, api, log, prefix)
        return
    if how == 4:
        # all created first, each configured afterwards through edit_(sub_)command(name)
        for n in nodes:
            cfg.create_sub_command(n["name"]) if sub else cfg.create_command(n["name"])
        for n in nodes:  # same order as every other route: the recording handlers' styles rotate with the order of installation
            with (cfg.edit_sub_command(n["name"]) if sub else cfg.edit_command(n["name"])) as c:
                configure_command(c, n, api, log, prefix)
        return
    made = []
    for n in nodes:
        c = api["CommandConfig"](n["name"])
        configure_command(c, n, api, log, prefix)
        made.append(c)
    if how == 0:
        for c in made:
            cfg.add_sub_command_config(c) if sub else cfg.add_command_config(c)
    elif how == 1:
        cfg.add_sub_command_configs(made) if sub else cfg.add_command_configs(made)
    else:
        gen = (c for c in made)
        cfg.add_sub_command_configs(gen) if sub else cfg.add_command_configs(gen)


_ALIAS_ROTATION = [0]


def configure_command(cfg, node, api, log, prefix=""):
    Argument, Option = api["Argument"], api["Option"]
    # four routes to the same aliases: set, add one by one, add a batch, replace an earlier (different) list
    _ALIAS_ROTATION[0] += 1
    route = _ALIAS_ROTATION[0] % 4
    if route == 0:
        cfg.set_aliases(list(node["aliases"]))
    elif route == 1:
        for a in node["aliases"]:
            cfg.add_alias(a)
    elif route == 2:
        cfg.add_aliases(list(node["aliases"]))
    else:
        cfg.set_aliases(["old" + node["name"]])  # replaced below: 'old<name>' is NOT an alias of the command
        cfg.set_aliases(list(node["aliases"]))
    if node["desc"] is not None:
        cfg.set_description(node["desc"])
    if node.get("help"):
        cfg.set_help(node["help"])
    k = node["kind"]
    _ROTATION[0] += 1
    roundabout = _ROTATION[0] % 3 == 0  # reach the same final marking through an earlier, different one
    if k == "default":
        if roundabout:
            cfg.anonymous()
        cfg.default()
    elif k == "anon":
        if roundabout:
            cfg.default()
        cfg.anonymous()
    elif k == "hidden":
        if roundabout:
            cfg.hide(False)
            cfg.disable()
            cfg.enable()
        cfg.hide()
    elif k == "disabled":
        if roundabout:
            cfg.enable()
        cfg.disable()
    elif roundabout:
        cfg.anonymous()
        cfg.default(False)
        cfg.disable()  # switched off and on again, hidden and shown again: a plain command after all
        cfg.enable()
        cfg.hide()
        cfg.hide(False)
    for a in node["args"]:
        fl = (Argument.REQUIRED if a["kind"] == "req" else Argument.OPTIONAL) | (Argument.MULTI_VALUED if a["multi"] else 0)
        cfg.add_argument(a["name"], fl, a["desc"] if a["desc"] != "" else None, a["default"])
    for o in node["opts"]:
        fl = {"flag": Option.NO_VALUE, "req": Option.REQUIRED_VALUE, "opt": Option.OPTIONAL_VALUE, "multi": Option.MULTI_VALUED}[o["mode"]]
        if o.get("prefer") == "long":
            fl |= Option.PREFER_LONG_NAME
        elif o.get("prefer") == "short":
            fl |= Option.PREFER_SHORT_NAME
        d = o["default"]
        cfg.add_option(o["long"], o["short"], fl, o["desc"], list(d) if isinstance(d, list) else d)
    full_name = (prefix + " " + node["name"]).strip()
    if log is not None:
        log.install(cfg, node, full_name)
    register_children(cfg, node["subs"], api, log, full_name, sub=True)


def load_api():
    from clikit.api.args.format import Argument, Option
    from clikit.api.config.application_config import ApplicationConfig
    from clikit.api.config.command_config import CommandConfig
    from clikit.config.default_application_config import DefaultApplicationConfig
    from clikit.console_application import ConsoleApplication
    from clikit.formatter import DefaultStyleSet
    from clikit.resolver.default_resolver import DefaultResolver

    return dict(Argument=Argument, Option=Option, ApplicationConfig=ApplicationConfig, CommandConfig=CommandConfig,
                DefaultApplicationConfig=DefaultApplicationConfig, ConsoleApplication=ConsoleApplication,
                DefaultStyleSet=DefaultStyleSet, DefaultResolver=DefaultResolver, shared_resolver=DefaultResolver())


def build_app(tree, api, log=None, default_config=False, name="app", version="1.2.3", io_factory=None, tweak=None, share_resolver=False):
    if default_config:
        cfg = api["DefaultApplicationConfig"](name, version)
    else:
        cfg = api["ApplicationConfig"](name, version)
        # a resolver is a stateless service: the same object may serve several applications
        cfg.set_command_resolver(api["shared_resolver"] if share_resolver else api["DefaultResolver"]())
        cfg.set_style_set(api["DefaultStyleSet"]())
    cfg.set_catch_exceptions(True)
    cfg.set_terminate_after_run(False)
    if io_factory is not None:
        cfg.set_io_factory(io_factory)
    register_children(cfg, tree, api, log, "", sub=False)
    if tweak is not None:
        tweak(cfg)
    return api["ConsoleApplication"](cfg), cfg


def find_command(app, names):
    c = app.get_command(names[0])
    for n in names[1:]:
        c = c.get_sub_command(n)
    return c


def positional_fill(path, rng=None, extra=0):
    """Positional tokens that fill the required arguments along a path (parents
    first), plus ``extra`` more."""
    out = []
    k = 0
    for n in path:
        for a in n["args"]:
            if a["kind"] == "req" and not a["multi"]:
                k += 1
                out.append("v%d" % k)
    for i in range(extra):
        out.append("x%d" % i)
    return out


def accepts_extra(path):
    """How many extra positionals the leaf accepts: a number or None for unbounded."""
    leaf = path[-1]
    if any(a["multi"] for a in leaf["args"]):
        return None
    return sum(1 for a in leaf["args"] if a["kind"] == "opt")
