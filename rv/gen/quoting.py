"""Shell-style quoting as the library documents it: a token in single or double
quotes, both quote characters inside it escaped with a backslash."""


def expressible(tok):
    """A token the quoting scheme can express: no backslash at its end and no
    backslash immediately before a quote character (a backslash escapes the
    character after it, and only quotes lose their backslash)."""
    n = len(tok)
    i = 0
    while i < n:
        if tok[i] == "\\":
            if i + 1 >= n or tok[i + 1] in "'\"":
                return False
            i += 2  # the backslash pairs with the next character
            continue
        i += 1
    return True


def can_be_bare(tok):
    return tok != "" and not any(c.isspace() or c in "'\"\\" for c in tok)


def render(tok, style):
    if style == "bare":
        return tok
    q = "'" if style == "single" else '"'
    return q + tok.replace("'", "\\'").replace('"', '\\"') + q


def quote_line(tokens, style="auto", sep=" "):
    out = []
    for t in tokens:
        s = style
        if s == "auto":
            s = "bare" if can_be_bare(t) else "single"
        out.append(render(t, s))
    return sep.join(out)
