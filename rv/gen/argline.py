"""Generator of args formats, assignments and command lines that *spell* an
assignment (C01), shared by C02 (single-fault mutations), C05 (request
histories) and C08 (string vs argv equivalence).

The generator starts from the assignment, so the expected parse result is known
by construction; ``conv`` is an independent reimplementation of the documented
conversions and never calls the library.
"""

TYPES = ("string", "boolean", "integer", "float")
BOOLW = {"true": True, "1": True, "yes": True, "on": True, "false": False, "0": False, "no": False, "off": False}
LONGS = ["alpha", "beta", "gamma", "delta", "eps"]
SHORTS = ["a", "b", "g", "d", "e"]
ARGN = ["one", "two", "three", "four"]
CMDSETS = [
    [],
    [("server", ["srv"])],
    [("server", ["srv", "sv"]), ("add", [])],
    [("server", []), ("add", ["plus"])],
]

POOLS = {
    "string": ["w", "foo-bar", "a=b", "x y", "é", "7", "tr'ue", 'q"t', "NULL", "line1\nline2", "\nlead", "a\tb=c", "e\u0301 \u65e5\u672c"],
    "boolean": list(BOOLW),
    "integer": ["5", "0", "42", "007", "+3", "1_0", "9007199254740993", "123456789012345678901234567890"],
    "float": ["1.5", "0.25", "1e3", "3", ".5", "inf", "0.1", "1e-7"],
}
SMALL_POOLS = {"string": ["w", "a=b"], "boolean": ["yes", "0"], "integer": ["5", "007"], "float": ["1.5", "3"]}
AFTER_DD = {"string": ["-x", "--zz", "-", "--alpha=1", "--"], "integer": ["-3", "-9223372036854775809"], "float": ["-0.5", "-1e2"], "boolean": []}
DEFAULTS = {"string": "dflt", "boolean": True, "integer": 9, "float": 2.5}


def conv(t, text, nullable):
    if nullable and text == "null":
        return None
    if t == "string":
        return text
    if t == "boolean":
        return BOOLW[text]
    if t == "integer":
        return int(text)
    if t == "float":
        return float(text)
    raise AssertionError(t)


def value_text(ch, t, nullable, after_dd=False, allow_empty=False, small=False):
    pool = list((SMALL_POOLS if small else POOLS)[t])
    if after_dd:
        pool += AFTER_DD[t][: 2 if small else None]
    if allow_empty and t == "string" and not small:
        pool.append("")
    if nullable:
        pool.append("null")
    return ch.choice(pool)


# --------------------------------------------------------------------------
def gen_format(ch, max_opts=5, max_args=4):
    opts = []
    for i in range(ch.randint(0, max_opts)):
        mode = ch.choice(["flag", "req", "opt", "multi"])
        t = ch.choice(TYPES)
        nullable = ch.flip(0.3)
        short = SHORTS[i] if ch.flip(0.6) else None
        default = None
        if mode == "opt" and ch.flip(0.6):
            default = DEFAULTS[t]
        elif mode == "req" and ch.flip(0.3):
            default = DEFAULTS[t]
        elif mode == "multi" and ch.flip(0.3):
            default = [DEFAULTS[t]]
        opts.append(dict(long=LONGS[i], short=short, mode=mode, type=t, nullable=nullable, default=default))
    nreq = ch.randint(0, 2)
    nopt = ch.randint(0, 2)
    multi = ch.flip(0.4)
    args = []
    names = ARGN[:]
    for _ in range(nreq):
        args.append(dict(name=names.pop(0), kind="req", type=ch.choice(TYPES), nullable=ch.flip(0.2), multi=False, default=None))
    for _ in range(nopt):
        t = ch.choice(TYPES)
        args.append(dict(name=names.pop(0), kind="opt", type=t, nullable=ch.flip(0.2), multi=False, default=DEFAULTS[t] if ch.flip(0.4) else None))
    if multi and len(args) < max_args:
        t = ch.choice(TYPES)
        kind = ch.choice(["req", "opt"]) if nopt == 0 else "opt"
        args.append(dict(name=names.pop(0), kind=kind, type=t, nullable=False, multi=True, default=[DEFAULTS[t]] if kind == "opt" and ch.flip(0.3) else None))
    cmds = [dict(name=n, aliases=al) for n, al in ch.choice(CMDSETS)]
    return dict(opts=opts, args=args, cmds=cmds, base=ch.flip(0.4))


def one_option_formats():
    """The catalogue for the bounded-exhaustive part: every option kind alone
    (4 modes x 4 types x nullable x short) on eight argument shapes."""
    shapes = {
        "none": [], "R": ["req"], "O": ["opt"], "M": ["multi"], "RO": ["req", "opt"], "RM": ["req", "multi"],
        "ROM": ["req", "opt", "multi"], "RRO": ["req", "req", "opt"],
    }
    out = []
    k = 0
    for mode in ("flag", "req", "opt", "multi"):
        for t in TYPES:
            for nullable in (False, True):
                for short in (None, "a"):
                    default = None
                    if mode == "opt" and not nullable:
                        default = DEFAULTS[t]
                    o = dict(long="alpha", short=short, mode=mode, type=t, nullable=nullable, default=default)
                    for sname in sorted(shapes):
                        k += 1
                        args = []
                        for i, kind in enumerate(shapes[sname]):
                            at = TYPES[(k + i) % 4]
                            args.append(dict(name=ARGN[i], kind="opt" if kind == "multi" else kind, type=at, nullable=False,
                                             multi=kind == "multi", default=None))
                        out.append(dict(opts=[o], args=args, cmds=[dict(name=n, aliases=al) for n, al in CMDSETS[k % 4]], base=False))
    return out


def two_option_formats():
    core = [
        dict(mode="flag", type="string", nullable=False, default=None),
        dict(mode="flag", type="boolean", nullable=False, default=None),
        dict(mode="req", type="string", nullable=False, default=None),
        dict(mode="req", type="integer", nullable=True, default=None),
        dict(mode="req", type="float", nullable=False, default=2.5),
        dict(mode="opt", type="string", nullable=False, default="dflt"),
        dict(mode="opt", type="boolean", nullable=True, default=None),
        dict(mode="opt", type="integer", nullable=False, default=9),
        dict(mode="multi", type="string", nullable=False, default=None),
        dict(mode="multi", type="integer", nullable=False, default=None),
        dict(mode="multi", type="float", nullable=True, default=[2.5]),
        dict(mode="flag", type="integer", nullable=True, default=None),
    ]
    out = []
    k = 0
    for i, a in enumerate(core):
        for j, b in enumerate(core):
            k += 1
            oa = dict(a, long="alpha", short="a")
            ob = dict(b, long="beta", short="b" if (i + j) % 3 else None)
            args = [
                [], [dict(name="one", kind="req", type="string", nullable=False, multi=False, default=None)],
                [dict(name="one", kind="opt", type="string", nullable=False, multi=False, default=None),
                 dict(name="two", kind="opt", type="integer", nullable=False, multi=True, default=None)],
            ][k % 3]
            out.append(dict(opts=[oa, ob], args=args, cmds=[dict(name=n, aliases=al) for n, al in CMDSETS[k % 4]], base=bool(k % 2)))
    return out


# --------------------------------------------------------------------------
class Api(object):
    """The real classes, imported from the working tree."""

    def __init__(self):
        from clikit.api.args.format import ArgsFormat, ArgsFormatBuilder, Argument, CommandName, Option
        from clikit.args import ArgvArgs, DefaultArgsParser, StringArgs

        self.ArgsFormat, self.ArgsFormatBuilder, self.Argument = ArgsFormat, ArgsFormatBuilder, Argument
        self.CommandName, self.Option = CommandName, Option
        self.ArgvArgs, self.StringArgs, self.DefaultArgsParser = ArgvArgs, StringArgs, DefaultArgsParser
        O, A = Option, Argument
        self.otype = {"string": O.STRING, "boolean": O.BOOLEAN, "integer": O.INTEGER, "float": O.FLOAT}
        self.atype = {"string": A.STRING, "boolean": A.BOOLEAN, "integer": A.INTEGER, "float": A.FLOAT}
        self.omode = {"flag": O.NO_VALUE, "req": O.REQUIRED_VALUE, "opt": O.OPTIONAL_VALUE, "multi": O.MULTI_VALUED}

    def mkopt(self, o):
        fl = self.omode[o["mode"]] | self.otype[o["type"]] | (self.Option.NULLABLE if o["nullable"] else 0)
        d = o["default"]
        return self.Option(o["long"], o["short"], fl, "desc of " + o["long"], list(d) if isinstance(d, list) else d)

    def mkarg(self, a):
        A = self.Argument
        fl = (A.REQUIRED if a["kind"] == "req" else A.OPTIONAL) | (A.MULTI_VALUED if a["multi"] else 0) | self.atype[a["type"]]
        fl |= A.NULLABLE if a["nullable"] else 0
        d = a.get("default")
        return A(a["name"], fl, "desc of " + a["name"], list(d) if isinstance(d, list) else d)

    def build(self, f):
        CN = self.CommandName
        if f["base"]:
            k = len(f["opts"]) // 2
            nb = sum(1 for a in f["args"] if a["kind"] == "req" and not a["multi"])
            base = self.ArgsFormat(
                [CN(c["name"], list(c["aliases"])) for c in f["cmds"][:1]] + [self.mkopt(o) for o in f["opts"][:k]]
                + [self.mkarg(a) for a in f["args"][:nb]]
            )
            b = self.ArgsFormatBuilder(base)
            for c in f["cmds"][1:]:
                b.add_command_name(CN(c["name"], list(c["aliases"])))
            for o in f["opts"][k:]:
                b.add_option(self.mkopt(o))
            for a in f["args"][nb:]:
                b.add_argument(self.mkarg(a))
            return b.format
        return self.ArgsFormat(
            [CN(c["name"], list(c["aliases"])) for c in f["cmds"]] + [self.mkopt(o) for o in f["opts"]] + [self.mkarg(a) for a in f["args"]]
        )


# --------------------------------------------------------------------------
def gen_case(f, ch, small=False):
    """Returns None when the drawn combination is outside the unambiguous
    grammar (bare optional-value option directly followed by a positional)."""
    given = []  # (opt, [texts]); text None = option given bare
    for o in f["opts"]:
        if not ch.flip(0.55):
            continue
        if o["mode"] == "flag":
            given.append((o, [None]))
        elif o["mode"] == "multi":
            given.append((o, [value_text(ch, o["type"], o["nullable"], small=small) for _ in range(ch.randint(1, 2 if small else 3))]))
        elif o["mode"] == "opt" and ch.flip(0.3):  # an optional value that is not given: the option reports its default (None if it has none)
            given.append((o, [None]))
        else:
            given.append((o, [value_text(ch, o["type"], o["nullable"], small=small)]))

    args = f["args"]
    single = [a for a in args if not a["multi"]]
    multi = [a for a in args if a["multi"]]
    nreq = sum(1 for a in single if a["kind"] == "req")
    k = ch.randint(nreq, len(single))
    use_dd = ch.flip(0.4)
    pos = [a for a in single[:k]]
    if multi and k == len(single):
        m = multi[0]
        pos += [m] * ch.randint(1 if m["kind"] == "req" else 0, 2 if small else 3)
    elif multi and multi[0]["kind"] == "req":
        pos = list(single) + [multi[0]]
    ddpos = ch.randint(0, len(pos)) if use_dd else len(pos)
    pos = [(a, value_text(ch, a["type"], a["nullable"], use_dd and i >= ddpos, True, small)) for i, a in enumerate(pos)]

    exp_opts = {}
    exp_args = {}
    for a, t in pos:
        if a["multi"]:
            exp_args.setdefault(a["name"], []).append(conv(a["type"], t, a["nullable"]))
        else:
            exp_args[a["name"]] = conv(a["type"], t, a["nullable"])

    # ---- spelling ---------------------------------------------------------
    groups = []  # each: dict(tokens=[...], bare=bool, multi=(long, converted) or None, form=str)
    flags_short = [o for o, t in given if o["mode"] == "flag" and o["short"]]
    grouped = set()
    if flags_short and ch.flip(0.5):
        g = ch.shuffled(flags_short)
        # optionally end the group with one value-taking option
        tail = [(o, t) for o, t in given if o["mode"] != "flag" and o["short"] and t[0] is not None and len(t) == 1]
        tok = "-" + "".join(o["short"] for o in g)
        form = "G%d" % len(g)
        extra = []
        multi_tag = None
        if tail and ch.flip(0.5):
            o, ts = ch.choice(tail)
            t = ts[0]
            grouped.add(o["long"])
            if not t.startswith("-") and ch.flip(0.5):
                tok += o["short"]
                extra = [t]
                form += "v_"
            else:
                tok += o["short"] + t
                form += "v+"
            if o["mode"] == "multi":
                multi_tag = (o["long"], conv(o["type"], t, o["nullable"]))
        if len(tok) >= 3:
            grouped.update(o["long"] for o in g)
            groups.append(dict(tokens=[tok] + extra, bare=False, multi=multi_tag, form=form, opt=None, text=None))
        else:
            grouped = set()
    for o, texts in given:
        if o["long"] in grouped:
            continue
        for t in texts:
            if t is None:
                forms = [("L", ["--" + o["long"]])] + ([("S", ["-" + o["short"]])] if o["short"] else [])
                name, toks = ch.choice(forms)
                groups.append(dict(tokens=toks, bare=o["mode"] == "opt", multi=None, form=name + ("bare" if o["mode"] == "opt" else "flag"),
                                   opt=o["long"], text=None))
                continue
            forms = [("L=", ["--%s=%s" % (o["long"], t)])]
            if not t.startswith("-"):
                forms.append(("L_", ["--" + o["long"], t]))
            if o["short"]:
                forms.append(("S+", ["-%s%s" % (o["short"], t)]))
                if not t.startswith("-"):
                    forms.append(("S_", ["-" + o["short"], t]))
            name, toks = ch.choice(forms)
            mt = (o["long"], conv(o["type"], t, o["nullable"])) if o["mode"] == "multi" else None
            groups.append(dict(tokens=toks, bare=False, multi=mt, form=name, opt=o["long"], text=t))
    groups = ch.shuffled(groups)
    seq = [("p", [t], a["name"]) for a, t in pos[:ddpos]]
    for g in groups:
        seq.insert(ch.randint(0, len(seq)), ("o", g))

    for o, texts in given:
        if o["mode"] == "flag":
            exp_opts[o["long"]] = True
        elif o["mode"] == "multi":
            exp_opts[o["long"]] = []
        elif texts[0] is None:
            exp_opts[o["long"]] = o["default"]
        else:
            exp_opts[o["long"]] = conv(o["type"], texts[0], o["nullable"])
    toks = []
    pattern = []
    chunks = []
    for idx, item in enumerate(seq):
        if item[0] == "o":
            g = item[1]
            if g["multi"]:
                exp_opts[g["multi"][0]].append(g["multi"][1])
            if g["bare"]:
                nxt = seq[idx + 1] if idx + 1 < len(seq) else None
                if nxt is not None and nxt[0] == "p":
                    return None
            toks += g["tokens"]
            pattern.append(g["form"])
            chunks.append(dict(kind="opt", tokens=list(g["tokens"]), form=g["form"], bare=g["bare"], opt=g["opt"], text=g["text"]))
        else:
            toks += item[1]
            pattern.append("p")
            chunks.append(dict(kind="pos", tokens=list(item[1]), arg=item[2]))
    if use_dd:
        toks += ["--"] + [t for a, t in pos[ddpos:]]
        pattern.append("--%d" % (len(pos) - ddpos))
        chunks.append(dict(kind="dd", tokens=["--"]))
        for a, t in pos[ddpos:]:
            chunks.append(dict(kind="tail", tokens=[t], arg=a["name"]))

    mode = ch.choice(["names", "alias", "omit_last", "omit_all"]) if f["cmds"] else "names"
    cm = []
    for i, c in enumerate(f["cmds"]):
        if mode == "omit_all":
            break
        if mode == "omit_last" and i == len(f["cmds"]) - 1:
            break
        cm.append(ch.choice(c["aliases"]) if mode == "alias" and c["aliases"] else c["name"])
    nontrivial = (bool(given) and bool(pos)) or any(p[0] == "G" for p in pattern) or use_dd or mode in ("omit_last", "omit_all")
    chunks = [dict(kind="cmd", tokens=[c]) for c in cm] + chunks
    return dict(tokens=cm + toks, exp_opts=exp_opts, exp_args=exp_args, mode=mode, pattern=tuple(pattern), nontrivial=nontrivial,
                ncmd=len(cm), chunks=chunks, npos=len(pos), nsingle=len(single), nreq=nreq, k=k, has_multi=bool(multi),
                multi_values=sum(1 for a, t in pos if a["multi"]))


def with_defaults(f, exp_opts, exp_args):
    o = dict(exp_opts)
    for opt in f["opts"]:
        if opt["long"] not in o:
            if opt["mode"] == "flag":
                o[opt["long"]] = False
            elif opt["mode"] == "multi":
                o[opt["long"]] = opt["default"] if opt["default"] is not None else []
            else:
                o[opt["long"]] = opt["default"]
    a = dict(exp_args)
    for arg in f["args"]:
        if arg["name"] not in a:
            d = arg.get("default")
            a[arg["name"]] = (d if d is not None else []) if arg["multi"] else d
    return o, a


def format_shape(f):
    return (
        tuple((o["mode"], o["type"], o["nullable"], o["short"] is not None, o["default"] is not None) for o in f["opts"]),
        tuple((a["kind"], a["type"], a["nullable"], a["multi"]) for a in f["args"]),
        tuple(len(c["aliases"]) for c in f["cmds"]),
        f["base"],
    )


def same(a, b):
    """Equality that also distinguishes 1 / 1.0 / True (typed conversion)."""
    if type(a) is not type(b):
        return False
    if isinstance(a, dict):
        return list(sorted(a)) == list(sorted(b)) and all(same(a[k], b[k]) for k in a)
    if isinstance(a, list):
        return len(a) == len(b) and all(same(x, y) for x, y in zip(a, b))
    return a == b
