"""Virtual clock: replaces time.time / time.monotonic / time.sleep on the real
``time`` module (ideally before clikit is imported, so that ``from time import``
style code is covered too).  Time only moves when the workload says so."""
import time as _time

_real = (_time.time, _time.monotonic, _time.sleep)


class Clock(object):
    def __init__(self, start=1000000.0):
        self.now = start
        self.sleeps = 0

    def time(self):
        return self.now

    def monotonic(self):
        return self.now

    def sleep(self, s):
        self.sleeps += 1
        if s > 0:
            self.now += s

    def advance(self, s):
        self.now += s


def install(start=1000000.0):
    c = Clock(start)
    _time.time = c.time
    _time.monotonic = c.monotonic
    _time.sleep = c.sleep
    return c


def uninstall():
    _time.time, _time.monotonic, _time.sleep = _real


def real_time():
    return _real[0]()
