"""Source-free failpoints with sys.monitoring (PEP 669).

Pass 1 (record): while ``active`` is set, every executed (file, line) under the
given root directories is recorded.  Pass 2 (inject): the first time the target
(file, line) is reached while ``active`` is set, the chosen exception is raised
from the LINE callback, i.e. at that line of the monitored code.
"""
import sys


class FaultInjector(object):
    TOOL = 4

    def __init__(self, roots):
        self.roots = tuple(roots)
        self.active = False
        self.mode = "off"
        self.seen = set()
        self.target = None
        self.exc = None
        self.fired = False
        mon = sys.monitoring
        mon.use_tool_id(self.TOOL, "rv-faults")
        mon.register_callback(self.TOOL, mon.events.LINE, self._line)
        mon.set_events(self.TOOL, mon.events.LINE)

    def _line(self, code, line):
        if not code.co_filename.startswith(self.roots):
            return sys.monitoring.DISABLE
        if not self.active:
            return
        if self.mode == "record":
            self.seen.add((code.co_filename, line))
        elif self.mode == "inject" and not self.fired and (code.co_filename, line) == self.target:
            self.fired = True
            raise self.exc

    def record(self):
        self.mode = "record"
        self.seen = set()
        sys.monitoring.restart_events()

    def arm(self, target, exc):
        self.mode = "inject"
        self.target = target
        self.exc = exc
        self.fired = False
        sys.monitoring.restart_events()

    def off(self):
        self.mode = "off"

    def close(self):
        sys.monitoring.set_events(self.TOOL, 0)
        sys.monitoring.free_tool_id(self.TOOL)
