"""A terminal emulator for exactly the control vocabulary the library emits.

Printable characters with *deferred* auto-wrap (VT100/xterm: writing into the
last column sets a pending-wrap flag; the wrap happens when the next printable
arrives; newline, carriage return and cursor movement clear the flag), newline,
carriage return, ESC[nA (cursor up), ESC[nD (cursor back), ESC[0J / ESC[J (erase below),
ESC[K / ESC[2K (erase in line), SGR ESC[...m (ignored).  Anything else raises
UnknownSequence, which callers turn into an *inconclusive* verdict.
The screen has unbounded height; cursor-up beyond the first row clamps.
"""
import re

CSI = re.compile("\x1b\\[([0-9;]*)([A-Za-z])")


class UnknownSequence(Exception):
    pass


class Term(object):
    def __init__(self, width):
        self.w = width
        self.rows = [[]]
        self.r = 0
        self.c = 0
        self.pending = False

    def _row(self):
        while len(self.rows) <= self.r:
            self.rows.append([])
        return self.rows[self.r]

    def feed(self, data):
        i = 0
        n = len(data)
        while i < n:
            ch = data[i]
            if ch == "\x1b":
                m = CSI.match(data, i)
                if not m:
                    raise UnknownSequence(repr(data[i:i + 8]))
                arg, k = m.group(1), m.group(2)
                if k == "A":
                    self.r = max(0, self.r - int(arg or 1))
                    self.pending = False
                elif k == "D":
                    self.c = max(0, self.c - int(arg or 1))
                    self.pending = False
                elif k == "J":
                    if arg not in ("", "0"):
                        raise UnknownSequence(m.group(0))
                    row = self._row()
                    del row[self.c:]
                    del self.rows[self.r + 1:]
                elif k == "K":
                    row = self._row()
                    if arg == "2":
                        row[:] = []
                    elif arg in ("", "0"):
                        del row[self.c:]
                    else:
                        raise UnknownSequence(m.group(0))
                elif k == "m":
                    pass
                else:
                    raise UnknownSequence(m.group(0))
                i = m.end()
                continue
            if ch == "\n":
                self.r += 1
                self.c = 0
                self.pending = False
                self._row()
            elif ch == "\r":
                self.c = 0
                self.pending = False
            else:
                if self.pending:
                    self.r += 1
                    self.c = 0
                    self.pending = False
                row = self._row()
                while len(row) < self.c:
                    row.append(" ")
                if self.c < len(row):
                    row[self.c] = ch
                else:
                    row.append(ch)
                if self.c == self.w - 1:
                    self.pending = True
                else:
                    self.c += 1
            i += 1

    def screen(self):
        out = ["".join(r).rstrip() for r in self.rows]
        while out and out[-1] == "":
            out.pop()
        return out

    def current_line(self):
        return "".join(self._row()).rstrip()
