"""Deterministic thread scheduler (CHESS-style) for the one threaded component.

Real OS threads run the real code, but only the thread holding the token runs.
``threading.Thread``, ``threading.Event``, ``threading.Lock`` / ``RLock``, ``time.sleep`` and ``time.time`` are
replaced on the real modules (install()), and the recording stream calls
``point("write")`` before every write, so that start / join / event operations /
sleeps / stream writes are the scheduling points.  A *sleeping* thread is a
schedule candidate too: choosing it moves the virtual clock to its wake-up
(the runnable threads simply were not scheduled meanwhile).
"""
import _thread
import threading as _th
import time as _time

_ORIG = dict(Thread=_th.Thread, Event=_th.Event, sleep=_time.sleep, time=_time.time, Lock=_th.Lock, RLock=_th.RLock)
_tl = _th.local()
SCHED = None


class Killed(BaseException):
    pass


class Sched(object):
    def __init__(self, choose, max_steps=600):
        self.cv = _th.Condition(_thread.allocate_lock())
        self.threads = {}
        self.current = None
        self.trace = []
        self.choices = []  # (options, picked index, was current runnable)
        self.choose = choose
        self.now = 0.0
        self.steps = 0
        self.max_steps = max_steps
        self.abort = False
        self.abort_reason = None
        self.threads["main"] = {"status": "run", "block": None, "label": "main"}
        self.current = "main"
        self.spawned = 0
        self.join_requested_at = None

    @staticmethod
    def me():
        return getattr(_tl, "name", "main")

    def point(self, label, block=None):
        me = self.me()
        with self.cv:
            st = self.threads[me]
            st["status"] = "ready"
            st["block"] = block
            st["label"] = label
            self._pick()
            while self.current != me:
                if self.abort:
                    raise Killed()
                self.cv.wait()
            if self.abort:
                raise Killed()
            st["status"] = "run"

    def _runnable(self):
        r = []
        for n, st in self.threads.items():
            if st["status"] != "ready":
                continue
            b = st.get("block")
            if b is None or b[0] == "sleep":
                r.append(n)
            elif b[0] == "join" and (self.threads[b[1]]["status"] == "done" or (len(b) > 2 and b[2] is not None)):
                # join(timeout) may also return because its time is up: a candidate like a sleeper
                r.append(n)
            elif b[0] == "lock" and (b[1].owner is None or b[1].owner == n):
                r.append(n)
        return r

    def _pick(self):
        self.steps += 1
        if self.steps > self.max_steps:
            self.abort = True
            self.abort_reason = "step bound"
            self.cv.notify_all()
            return
        r = self._runnable()
        if not r:
            self.abort = True
            self.abort_reason = "deadlock"
            self.cv.notify_all()
            return
        r = sorted(r)
        prev = self.current
        # default = what a fair scheduler without pre-emption does: keep running the current thread;
        # if it blocked, run a thread that is not sleeping; only if all sleep, wake the earliest
        def asleep(n):
            b = self.threads[n].get("block")
            if b is None:
                return False
            if b[0] == "sleep":
                return True
            return b[0] == "join" and self.threads[b[1]]["status"] != "done"  # only a join whose time-out could end it

        awake = [n for n in r if not asleep(n)]
        if prev in awake:
            default = prev
        elif awake:
            default = awake[0]
        else:
            default = min(r, key=lambda n: (self.threads[n]["block"][1] if self.threads[n]["block"][0] == "sleep" else self.threads[n]["block"][2], n))
        n = self.choose(r, self, r.index(default))
        b = self.threads[n].get("block")
        if b and b[0] == "sleep":
            self.now = max(self.now, b[1])
            self.threads[n]["block"] = None
        elif b and b[0] == "join" and self.threads[b[1]]["status"] != "done":
            self.now = max(self.now, b[2])  # the join timed out
            self.threads[n]["block"] = None
        self.choices.append((len(r), r.index(n), n != default))
        self.trace.append((n, self.threads[n]["label"]))
        self.current = n
        self.cv.notify_all()

    def finish_thread(self):
        me = self.me()
        with self.cv:
            self.threads[me]["status"] = "done"
            self._pick()


class ShimThread(object):
    def __init__(self, group=None, target=None, name=None, args=(), kwargs=None, daemon=None):
        SCHED.spawned += 1
        self.name = "T%d" % SCHED.spawned
        self.target, self.args, self.kwargs = target, args, kwargs or {}
        self.daemon = daemon
        self.joined = False

    def start(self):
        s = SCHED
        s.threads[self.name] = {"status": "ready", "block": None, "label": "thread-start"}
        name = self.name
        target, args, kwargs = self.target, self.args, self.kwargs

        def run():
            _tl.name = name
            try:
                with s.cv:
                    while s.current != name:
                        if s.abort:
                            return
                        s.cv.wait()
                    s.threads[name]["status"] = "run"
                try:
                    target(*args, **kwargs)
                except Killed:
                    return
                except BaseException as e:  # the spinner died of an exception
                    s.threads[name]["error"] = e
            finally:
                if not s.abort:
                    s.finish_thread()

        _thread.start_new_thread(run, ())
        s.point("after-start")

    def join(self, timeout=None):
        SCHED.join_requested_at = SCHED.steps
        SCHED.point("join", ("join", self.name, None if timeout is None else SCHED.now + max(timeout, 0)))
        self.joined = True

    def is_alive(self):
        return SCHED.threads.get(self.name, {"status": "new"})["status"] not in ("done", "new")


class ShimEvent(object):
    def __init__(self):
        self.f = False

    def set(self):
        SCHED.point("event.set")
        self.f = True

    def is_set(self):
        SCHED.point("event.is_set")
        return self.f

    def clear(self):
        self.f = False

    def wait(self, timeout=None):
        if timeout is not None:
            SCHED.point("event.wait", ("sleep", SCHED.now + timeout))
        else:
            SCHED.point("event.wait")
        return self.f


class ShimLock(object):
    """threading.Lock / RLock under the scheduler: acquiring is a scheduling point, a thread waiting for a lock held
    by another thread is not runnable (so a cycle of waits shows up as 'no thread can run').  Locks created outside
    a scheduled run, or by threads the scheduler does not know, are the real ones."""

    reentrant = False

    def __new__(cls, *a, **k):
        if SCHED is None or Sched.me() not in SCHED.threads:
            return (_ORIG["RLock"] if cls.reentrant else _ORIG["Lock"])()
        return object.__new__(cls)

    def __init__(self):
        self.owner = None
        self.count = 0

    def acquire(self, blocking=True, timeout=-1):
        me = Sched.me()
        if self.owner == me:
            if self.reentrant:
                self.count += 1
                return True
            if not blocking:
                return False
            # a plain lock taken twice by the same thread never returns
            SCHED.point("lock.acquire", ("lock-self", self))
            return False
        if not blocking:
            SCHED.point("lock.try")
            if self.owner is not None:
                return False
        else:
            SCHED.point("lock.acquire", ("lock", self))
        self.owner = me
        self.count = 1
        return True

    def release(self):
        if self.owner != Sched.me():
            raise RuntimeError("cannot release un-acquired lock")
        self.count -= 1
        if self.count == 0:
            self.owner = None
            SCHED.point("lock.release")

    def locked(self):
        return self.owner is not None

    def __enter__(self):
        self.acquire()
        return self

    def __exit__(self, *exc):
        self.release()
        return False


class ShimRLock(ShimLock):
    reentrant = True


def shim_sleep(d):
    SCHED.point("sleep", ("sleep", SCHED.now + max(d, 0)))


def shim_time():
    return 1000000.0 + (SCHED.now if SCHED is not None else 0.0)


def install():
    _th.Thread = ShimThread
    _th.Event = ShimEvent
    _th.Lock = ShimLock
    _th.RLock = ShimRLock
    _time.sleep = shim_sleep
    _time.time = shim_time


def new_run(choose, max_steps=600):
    global SCHED
    SCHED = Sched(choose, max_steps)
    _tl.name = "main"
    return SCHED
