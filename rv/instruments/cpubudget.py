"""Termination monitor for work the step counters cannot see (pattern matching and other loops inside the
interpreter's C code): a budget of *process CPU time* (ITIMER_VIRTUAL, so the machine's load does not count) around
one call.  The interpreter checks for signals while matching, so a run-away match is interrupted.  Main thread only.

    with cpu_budget(10.0):
        call()          # raises CpuBudgetExceeded (a BaseException) when the budget is used up
"""
import signal


class CpuBudgetExceeded(BaseException):
    pass


def _alarm(signum, frame):
    raise CpuBudgetExceeded()


class cpu_budget(object):
    def __init__(self, seconds):
        self.seconds = seconds

    def __enter__(self):
        signal.signal(signal.SIGVTALRM, _alarm)
        signal.setitimer(signal.ITIMER_VIRTUAL, self.seconds)
        return self

    def __exit__(self, *exc):
        signal.setitimer(signal.ITIMER_VIRTUAL, 0)
        return False
