"""C04 - a run always ends in a valid exit status and never leaks a handler failure.

Boundary recorders: return value / exception of Application.run with exception
catching on, recording handlers on every command of a small tree, recording
output streams.  Fault sequences: a sys.monitoring failpoint injector raises an
exception at every line executed inside the handler's extent (handler + the
library code it calls).
"""
import math
import os
import re

from rv import repo
from rv.gen import tree as T

PROPERTY = "C04"
LEVEL = "fault_enumeration"
EXHAUSTIVE = False
RULE = (
    "handler outcomes: results {None, False, 0, '', 0.0, True, 1, 3, 255, 256, 300, -5, '7', '0', 2.5, 0.4, 'x', nan, object} and "
    "raised exceptions {ValueError, KeyError, custom with code attribute 0/7/999/None/'x', library exceptions, "
    "KeyboardInterrupt, chained (from / implicit, depth 3), raised from exec-compiled source-less code, from a file deleted "
    "after import} x messages {plain, multi-line, non-ASCII, balanced/opening/closing/crossed/escaped tags, 5 kB, empty} x "
    "verbosity {normal,-v,-vv,-vvv} x pre-handle listener {none, passes, handles with status s, raises} x ANSI/plain streams "
    "on a 3-command tree; user-typed tokens with markup reaching library error messages; and injected faults: every "
    "(file, line) executed while a handler that writes, indents, renders a table and asks a question is on the stack, x 3 "
    "exception types. Judged: run returns an int in 0..255 and raises nothing; 0 iff falsy result; clamp(int(result)) otherwise; "
    "status >= 1 and a report containing the message for every exception; exactly one invocation of the selected handler "
    "Also: every way of failing x every markup-like message class once (stratified); handlers raising inside indentation scopes; exception types that provide a solution with markup-like texts. "
    "with the arguments of an independent parse. non-trivial = outcome other than None/0; distinct by (outcome class, "
    "message class, verbosity, listener, stream kind) / injection point."
)
BOUND = {
    "quick": "1500 sampled outcome runs + 150 injection points x 3 exception types",
    "thorough": "full outcome product (about 8300 runs) + every injection point x 3 exception types",
}
ASSUMPTIONS = [
    "SystemExit and GeneratorExit are interpreter control-flow signals and are not generated",
    "a handler result on which int() fails is an exception outcome (status >= 1 with a report)",
    "KeyboardInterrupt maps to status 1 by design and needs no report; quiet runs need no report",
    "an injected fault that library code itself swallows (e.g. a question's retry loop) may legitimately end in status 0",
]

SGR = re.compile("\x1b\\[[0-9;]*m")
TAGLIKE = re.compile(r"(?is)<(([a-z][a-z0-9,_=;-]*)|/([a-z][a-z0-9,_=;-]*)?)>")
MESSAGES = {
    "plain": "something went wrong", "multiline": "first line\nsecond line", "unicode": "échec: 失敗 ✓", "balanced": "a <b>bold</b> word",
    "opening": "an <info>unclosed tag", "closing": "a stray </info> tag", "crossed": "<b>crossed</info> tags", "escaped": "an \\<b> escaped tag",
    "long": "word " * 1000, "empty": "", "lt": "1 < 2 and 3 > 2",
    "ends-backslash": "directory C:\\temp\\", "ends-2-backslashes": "share not found: \\\\", "anyclose": "closing </> nothing",
}


class Unconvertible(object):
    pass


RESULTS = [("None", None), ("False", False), ("0", 0), ("empty-str", ""), ("0.0", 0.0), ("True", True), ("1", 1), ("3", 3), ("255", 255), ("256", 256),
           ("300", 300), ("-5", -5), ("str7", "7"), ("str0", "0"), ("2.5", 2.5), ("0.4", 0.4), ("strx", "x"), ("nan", float("nan")), ("object", "OBJ")]


def expected_status(value):
    """('status', n) or ('error',) following the statement."""
    if value == "OBJ":
        return ("error",)
    if not value:
        return ("status", 0)
    try:
        n = int(value)
    except (ValueError, TypeError, OverflowError):
        return ("error",)
    return ("status", min(max(n, 1), 255))


def normalise(s):
    s = SGR.sub("", s)
    s = TAGLIKE.sub("", s)
    s = s.replace("\\", "")
    return re.sub(r"\s+", " ", s).strip()


TREE = [
    dict(name="alpha", aliases=["al"], kind="plain", desc="d", help=None, subs=[
        dict(name="beta", aliases=[], kind="plain", desc="d", help=None, subs=[], opts=[dict(long="flag", short="f", mode="flag", desc="d", default=None, prefer="auto")],
             args=[dict(name="target", kind="req", multi=False, desc="d", default=None), dict(name="rest", kind="opt", multi=True, desc="d", default=None)]),
    ], args=[], opts=[dict(long="level", short=None, mode="req", desc="d", default="1", prefer="auto")]),
    dict(name="gamma", aliases=[], kind="plain", desc="d", help=None, subs=[], opts=[], args=[dict(name="rest", kind="opt", multi=True, desc="d", default=None)]),
]
LINE = ["alpha", "beta", "t1", "r1", "--flag"]


class Env(object):
    def __init__(self):
        self.api = T.load_api()
        from clikit.api.event import PRE_HANDLE
        from clikit.api.exceptions import CliKitException
        from clikit.api.args.exceptions import CannotParseArgsException
        from clikit.args import ArgvArgs
        from clikit.io.input_stream import StringInputStream
        from clikit.io.output_stream import BufferedOutputStream

        self.PRE_HANDLE, self.CliKitException, self.CannotParseArgsException = PRE_HANDLE, CliKitException, CannotParseArgsException
        self.ArgvArgs, self.StringInputStream = ArgvArgs, StringInputStream

        class RecStream(BufferedOutputStream):
            def __init__(self, ansi=False):
                BufferedOutputStream.__init__(self)
                self._ansi = ansi

            def supports_ansi(self):
                return self._ansi

        self.RecStream = RecStream

        class Custom(Exception):
            def __init__(self, msg, code):
                Exception.__init__(self, msg)
                if code != "absent":
                    self.code = code

        self.Custom = Custom


def raiser(env, kind, message):
    """Returns a callable that raises the described exception."""
    if kind == "ValueError":
        def f():
            raise ValueError(message)
    elif kind == "TypeError":
        def f():
            raise TypeError(message)
    elif kind == "chain-cycle":
        # two exceptions naming each other as cause (and one that is its own cause)
        def f():
            a, b = ValueError(message), RuntimeError("other end of the cycle")
            a.__cause__, b.__cause__ = b, a
            if len(message) % 2:
                a.__cause__ = a
            raise a
    elif kind == "chain-long":
        def f():
            e = KeyError("link 0")
            for i in range(1500):
                n = RuntimeError("link %d" % (i + 1))
                n.__cause__ = e
                e = n
            top = ValueError(message)
            top.__cause__ = e
            raise top
    elif kind == "KeyError":
        def f():
            raise KeyError(message)
    elif kind.startswith("custom-"):
        import decimal
        import fractions

        code = {"custom-0": 0, "custom-7": 7, "custom-999": 999, "custom-none": None, "custom-x": "x", "custom-float": 2.5, "custom-nan": float("nan"),
                "custom-true": True, "custom-neg": -3, "custom-huge": 1e300, "custom-decimal": decimal.Decimal("7.5"), "custom-fraction": fractions.Fraction(7, 2),
                "custom-method": (lambda: 3), "custom-absent": "absent"}[kind]

        def f():
            raise env.Custom(message, code)
    elif kind == "library":
        def f():
            raise env.CannotParseArgsException(message)
    elif kind == "clikit-base":
        def f():
            raise env.CliKitException(message)
    elif kind == "interrupt":
        def f():
            raise KeyboardInterrupt()
    elif kind == "chain-from":
        def f():
            try:
                try:
                    raise KeyError("root cause")
                except KeyError as e:
                    raise RuntimeError("middle") from e
            except RuntimeError as e2:
                raise ValueError(message) from e2
    elif kind == "chain-same-message":
        # every exception of the chain carries the (hostile) message
        def f():
            try:
                try:
                    raise KeyError(message)
                except KeyError as e:
                    raise RuntimeError(message) from e
            except RuntimeError as e2:
                raise ValueError(message) from e2
    elif kind == "chain-context-message":
        def f():
            try:
                raise LookupError(message)
            except LookupError:
                raise ValueError("outer failure")
    elif kind == "chain-implicit":
        def f():
            try:
                1 / 0
            except ZeroDivisionError:
                raise ValueError(message)
    elif kind.startswith("solution-"):
        # an exception type that brings its own solution (crashtest's ProvidesSolution; the default configuration renders
        # it below the report) whose texts are not markup but look like it
        from crashtest.contracts.base_solution import BaseSolution
        from crashtest.contracts.provides_solution import ProvidesSolution

        title, desc, links = {
            "solution-plain": ("Install it.", "Run the installer", ["https://example.org/a"]),
            "solution-markup-title": ("remove the </error> tag", "plain description", []),
            "solution-markup-description": ("Title", "a stray </info> and an <info>unclosed tag\nsecond line", []),
            "solution-markup-link": ("Title", "see", ["https://example.org/</comment>", "https://example.org/<b>"]),
            "solution-backslash": ("look in C:\\", "the directory C:\\temp\\", ["file:///C:\\"]),
            "solution-message": (message, message, [message.replace("\n", " ")]),
        }[kind]

        class Solved(Exception, ProvidesSolution):
            @property
            def solution(self):
                s = BaseSolution(title, desc)
                s.documentation_links.extend(links)
                return s

        def f():
            raise Solved(message)
    elif kind == "sourceless":
        ns = {}
        exec(compile("def g(m):\n    raise ValueError(m)\n", "<no-such-file>", "exec"), ns)

        def f():
            ns["g"](message)
    elif kind == "sourceless-markup-name":
        # code compiled under a file name that spells a closing style tag
        ns = {}
        exec(compile("def g(m):\n    raise ValueError(m)\n", "a</error>b", "exec"), ns)

        def f():
            ns["g"](message)
    elif kind == "sourceless-middle":
        # exec-compiled code with no file calls back into code that has a file and raises there
        ns = {}
        exec(compile("def relay(cb, m):\n    return cb(m)\n", "<no-such-file-middle>", "exec"), ns)

        def inner(m):
            raise ValueError(m)

        def f():
            ns["relay"](inner, message)
    elif kind in ("latin1-file", "non-python-file"):
        import importlib.util
        import tempfile

        d = tempfile.mkdtemp(prefix="c04_", dir=os.path.join(os.path.dirname(os.path.dirname(os.path.dirname(os.path.abspath(__file__)))), "out"))
        Env.all_tempdirs = getattr(Env, "all_tempdirs", []) + [d]
        if kind == "latin1-file":
            # a module stored in Latin-1 with its coding cookie
            path = os.path.join(d, "latin_%d.py" % os.getpid())
            with open(path, "wb") as fh:
                fh.write(u"# -*- coding: latin-1 -*-\ndef g(m):\n    s = 'caf\u00e9 \u00fcber'\n    raise ValueError(m)\n".encode("latin-1"))
            spec = importlib.util.spec_from_file_location("c04_latin_%d" % (id(message) % 100000), path)
            mod = importlib.util.module_from_spec(spec)
            spec.loader.exec_module(mod)

            def f():
                mod.g(message)
        else:
            # a code object that names an existing file which is not Python (as template engines do)
            path = os.path.join(d, "page_%d.html" % os.getpid())
            with open(path, "w") as fh:
                fh.write("<html>\n{{ it's broken \'\'\' }}\n<b>(\n</html>\n")
            ns = {}
            exec(compile("\n\ndef g(m):\n    raise ValueError(m)\n", path, "exec"), ns)

            def f():
                ns["g"](message)
    elif kind == "deleted-file":
        import importlib.util
        import tempfile

        d = tempfile.mkdtemp(prefix="c04_", dir=os.path.join(os.path.dirname(os.path.dirname(os.path.dirname(os.path.abspath(__file__)))), "out"))
        path = os.path.join(d, "gone_%d_%d.py" % (os.getpid(), id(message) % 100000))
        with open(path, "w") as fh:
            fh.write("def g(m):\n    x = 1\n    raise ValueError(m)\n")
        spec = importlib.util.spec_from_file_location("c04_gone_%d" % (id(message) % 100000), path)
        mod = importlib.util.module_from_spec(spec)
        spec.loader.exec_module(mod)
        os.unlink(path)
        os.rmdir(d)

        def f():
            mod.g(message)
    else:
        raise AssertionError(kind)
    return f


EXC_KINDS = ["ValueError", "TypeError", "chain-cycle", "chain-long", "KeyError", "custom-0", "custom-7", "custom-999", "custom-none", "custom-x", "custom-float", "custom-nan", "custom-true", "custom-neg",
             "custom-huge", "custom-decimal", "custom-fraction", "custom-method", "custom-absent", "library", "clikit-base", "interrupt",
             "solution-plain", "solution-markup-title", "solution-markup-description", "solution-markup-link", "solution-backslash", "solution-message",
             "chain-from", "chain-implicit", "chain-same-message", "chain-context-message", "sourceless", "sourceless-markup-name", "sourceless-middle", "deleted-file", "latin1-file", "non-python-file"]
VERBOSITY = [[], ["-v"], ["-vv"], ["-vvv"]]
LISTENERS = ["none", "passes", "handles-0", "handles-5", "handles-300", "handles-default", "raises", "handles-7-status-first", "handles-5-two-listeners"]


def run_case(sh, env, outcome, msg_class, vflags, listener, ansi, quiet=False, line=None, style=None):
    """outcome: ('result', name) | ('raise', kind)"""
    message = MESSAGES[msg_class]
    log = T.HandlerLog()
    if style is None:
        env.case_no = getattr(env, "case_no", 0) + 1
        style = env.case_no % len(log.STYLES)
    log.made = style  # which of the four ways of attaching a handler 'alpha beta' gets (see HandlerLog.install)
    escaped = []
    value = None
    if outcome[0] == "result":
        value = dict(RESULTS)[outcome[1]]
        ret = Unconvertible() if value == "OBJ" else value
        log.behaviour = lambda command, args, io: ret
    else:
        fn = raiser(env, outcome[1], message)

        wrap = getattr(env, "case_no", 0) % 4

        def behaviour(command, args, io):
            escaped.append(outcome[1])
            # "raised at any point": also inside the context managers the I/O hands out
            if wrap == 1:
                with io.indent(2):
                    fn()
            elif wrap == 2:
                with io.increment_indent(1):
                    with io.output.indent(3):
                        fn()
            else:
                fn()
        log.behaviour = behaviour

    config_debug = (getattr(env, "case_no", 0) % 7 == 3)

    def tweak(cfg):
        if config_debug:
            cfg.debug()  # debug verbosity asked for by the configuration instead of -vvv
        if listener == "none":
            return
        if listener == "passes":
            cfg.add_event_listener(env.PRE_HANDLE, lambda event, name, d: None)
        elif listener == "handles-default":
            # marks the event handled and leaves the event's default status
            cfg.add_event_listener(env.PRE_HANDLE, lambda event, name, d: event.handled(True))
        elif listener == "handles-7-status-first":
            # the status is set before the event is marked as handled
            def handle_sf(event, name, d):
                event.set_status_code(7)
                event.handled(True)
            cfg.add_event_listener(env.PRE_HANDLE, handle_sf)
        elif listener == "handles-5-two-listeners":
            # one listener sets the status, a later one marks the event as handled
            cfg.add_event_listener(env.PRE_HANDLE, lambda event, name, d: event.set_status_code(5))
            cfg.add_event_listener(env.PRE_HANDLE, lambda event, name, d: event.handled(True))
        elif listener.startswith("handles-"):
            code = int(listener.split("-")[1])

            def handle(event, name, d):
                event.handled(True)
                event.set_status_code(code)
            cfg.add_event_listener(env.PRE_HANDLE, handle)
        else:
            def boom(event, name, d):
                raise RuntimeError("listener failed: " + message)
            cfg.add_event_listener(env.PRE_HANDLE, boom)

    app, cfg = T.build_app(TREE, env.api, log, default_config=True, name="app", tweak=tweak)
    tokens = list(line or LINE) + list(vflags) + (["-q"] if quiet else [])
    raw = env.ArgvArgs(["prog"] + tokens)
    out, err = env.RecStream(ansi), env.RecStream(ansi)
    case = {"outcome": list(outcome), "message": msg_class, "flags": list(vflags), "listener": listener, "ansi": ansi, "quiet": quiet, "tokens": tokens, "style": style,
            "handler_style": log.styles.get("alpha beta"), "config_debug": config_debug}
    nontrivial = not (outcome[0] == "result" and outcome[1] in ("None", "0"))
    sh.tag("handler_style", str(log.styles.get("alpha beta")))
    sh.case((outcome, msg_class, tuple(vflags), listener, ansi, quiet, style), nontrivial)
    try:
        status = app.run(raw, env.StringInputStream(""), out, err)
    except BaseException as e:
        sh.violate("run-raises", case, "run raised %r instead of returning a status" % (e,), classify(case, e))
        return
    sh.count("runs")
    text = out.fetch() + err.fetch()
    if not isinstance(status, int) or isinstance(status, bool) or not (0 <= status <= 255):
        sh.violate("status-range", case, "run returned %r" % (status,))
        return
    # ---- who ran -----------------------------------------------------------------------
    calls = log.calls
    if listener.startswith("handles-") or listener == "raises":
        if calls:
            sh.violate("handler-count", case, "a handler ran although the pre-handle listener %s" % listener)
        if listener == "raises":
            if status < 1 or (not quiet and normalise("listener failed") not in normalise(text)):
                sh.violate("exception-status", case, "listener raised: status %d, report %r" % (status, normalise(text)[:120]))
        else:
            code = 0 if listener == "handles-default" else int(listener.split("-")[1])
            want = 0 if not code else min(max(code, 1), 255)
            if status != want:
                sh.violate("status-value", case, "listener handled with status %d: run returned %d, expected %d" % (code, status, want))
        return
    if len(calls) != 1 or calls[0]["command"] != "alpha beta":
        sh.violate("handler-count", case, "handler invocations: %r" % ([c["command"] for c in calls],))
        return
    ref = T.find_command(app, ["alpha", "beta"]).parse(env.ArgvArgs(["prog"] + tokens))
    if calls[0]["arguments"] != ref.arguments(True) or calls[0]["options"] != ref.options(False):
        sh.violate("handler-args", case, "handler got %r / %r, an independent parse gives %r / %r" % (
            calls[0]["arguments"], calls[0]["options"], ref.arguments(True), ref.options(False)))
    # ---- status -----------------------------------------------------------------------------
    if outcome[0] == "result":
        exp = expected_status(value)
        if exp[0] == "status":
            if status != exp[1]:
                sh.violate("status-value", case, "handler returned %r: run returned %d, expected %d" % (value, status, exp[1]))
            sh.count("result_runs")
            return
        kind = "unconvertible-result"
    else:
        kind = outcome[1]
    sh.count("exception_runs")
    if status < 1:
        sh.violate("exception-status", case, "%s: run returned status %d" % (kind, status))
        return
    if kind == "interrupt" or quiet:
        if quiet and text:
            sh.violate("quiet-output", case, "quiet run wrote %r" % text[:80])
        return
    if not text.strip() and not (outcome[0] == "raise" and message == "" and text):
        sh.violate("exception-report", case, "%s: status %d but nothing was printed" % (kind, status))
        return
    if outcome[0] == "raise":
        want = "outer failure" if kind == "chain-context-message" else (message if kind != "KeyError" else repr(message))
        if normalise(want) not in normalise(text):
            sh.violate("exception-report", case, "%s: the report does not contain the message %r: %r" % (kind, normalise(want)[:60], normalise(text)[:200]))


def classify(case, exc):
    return None


# ---- one application object used for several runs -----------------------------------------------
def run_reuse(sh, env, rng, n):
    """The handler is invoked with the arguments parsed for THIS command line, also when the same
    application object has just processed another (failing, help, '--' carrying) line."""
    first_lines = [["alpha", "beta", "t1", "--flag", "--bogus"], ["alpha", "beta"], ["alpha", "beta", "t1", "--", "-x", "--flag"], ["alpha", "beta", "t1", "--level=7", "r9"],
                   ["help", "alpha"], ["gamma", "a", "b"], ["alpha", "beta", "t1", "--level"], ["nosuch"]]
    second_lines = [["alpha", "beta", "t2"], ["alpha", "beta", "t3", "r1", "--flag"], ["gamma"], ["alpha", "beta", "t4", "--version"], ["gamma", "--", "-q"]]
    for _ in range(n):
        log = T.HandlerLog()
        # in a third of the histories pre-handle listeners are registered: a failing one at priority 0 before the first run
        # and a handling one (status 75) at priority 10 just before the last run - the later, higher one must run first
        late_listener = rng.random() < 0.33

        def failing(event, name, d):
            raise RuntimeError("the low-priority listener ran")

        def handling(event, name, d):
            event.handled(True)
            event.set_status_code(75)
            event.stop_propagation()

        def with_first(cfg):
            if late_listener:
                cfg.add_event_listener(env.PRE_HANDLE, failing, 0)

        app, cfg = T.build_app(TREE, env.api, log, default_config=True, name="app", tweak=with_first)
        hist = [rng.choice(first_lines) for _ in range(rng.randint(1, 2))] + [rng.choice(second_lines)]
        case = {"kind": "reuse", "lines": hist, "listener_added_before_last_run": late_listener}
        sh.case(("reuse", tuple(tuple(l) for l in hist), late_listener), True)
        got = None
        for k, line in enumerate(hist):
            if late_listener and k == len(hist) - 1:
                cfg.add_event_listener(env.PRE_HANDLE, handling, 10)
            log.calls = []
            out, err = env.RecStream(False), env.RecStream(False)
            try:
                st = app.run(env.ArgvArgs(["prog"] + line), env.StringInputStream(""), out, err)
            except BaseException as e:
                sh.violate("run-raises", case, "run of %r raised %r" % (line, e))
                st = None
                break
            got = (st, [(c["command"], c["arguments"], c["options"]) for c in log.calls], out.fetch())
        if st is None:
            continue
        flog = T.HandlerLog()

        def with_both(cfg):
            if late_listener:
                cfg.add_event_listener(env.PRE_HANDLE, failing, 0)
                cfg.add_event_listener(env.PRE_HANDLE, handling, 10)

        fapp, _ = T.build_app(TREE, env.api, flog, default_config=True, name="app", tweak=with_both)
        out, err = env.RecStream(False), env.RecStream(False)
        fst = fapp.run(env.ArgvArgs(["prog"] + hist[-1]), env.StringInputStream(""), out, err)
        want = (fst, [(c["command"], c["arguments"], c["options"]) for c in flog.calls], out.fetch())
        sh.count("reuse_runs")
        if got != want:
            sh.violate("handler-args", case, "after %r the line %r gave %r on the same application, a fresh application gives %r" % (hist[:-1], hist[-1], got, want))


# ---- user-typed markup reaching library messages ---------------------------------------
HOSTILE_TOKENS = ["</info>", "<b>", "</b>", "<b></info>", "--</info>", "--<b>x", "-</b>", "<fg=red>", "\\<b>", "</>"]


def run_hostile_line(sh, env, tokens, ansi):
    log = T.HandlerLog()
    app, cfg = T.build_app(TREE, env.api, log, default_config=True, name="app")
    out, err = env.RecStream(ansi), env.RecStream(ansi)
    case = {"kind": "hostile-line", "tokens": tokens, "ansi": ansi}
    sh.case(("hostile", tuple(tokens), ansi), True)
    try:
        status = app.run(env.ArgvArgs(["prog"] + tokens), env.StringInputStream(""), out, err)
    except BaseException as e:
        sh.violate("run-raises", case, "run raised %r for the line %r" % (e, tokens))
        return
    sh.count("hostile_runs")
    if not isinstance(status, int) or not (0 <= status <= 255):
        sh.violate("status-range", case, "run returned %r" % (status,))


# ---- injected faults -----------------------------------------------------------------------
class Injected(Exception):
    pass


def rich_behaviour(state):
    def behaviour(command, args, io):
        from clikit.ui.components import ConfirmationQuestion, Table

        state["in"].active = True
        try:
            io.write_line("<info>hello</info>")
            io.error_line("verbose only", 1)
            with io.indent(2):
                io.write_line("indented")
            t = Table()
            t.set_header_row(["a", "b"])
            t.add_row(["x " * 30, "y"])
            t.render(io)
            ConfirmationQuestion("ok?", True).ask(io)
            sec = io.section()
            sec.write_line("in a section")
            sec.output.overwrite("replaced")
        except BaseException as e:
            state["escaped"] = e
            raise
        finally:
            state["in"].active = False
        return 0
    return behaviour


def injection_run(sh, env, inj, target, exc, record=False):
    state = {"in": inj, "escaped": None}
    log = T.HandlerLog()
    log.behaviour = rich_behaviour(state)
    app, cfg = T.build_app(TREE, env.api, log, default_config=True, name="app")
    out, err = env.RecStream(False), env.RecStream(False)
    if record:
        inj.record()
    else:
        inj.arm(target, exc)
    try:
        status = app.run(env.ArgvArgs(["prog"] + LINE), env.StringInputStream("y\n"), out, err)
        raised = None
    except BaseException as e:
        status, raised = None, e
    finally:
        inj.active = False
        inj.off()
    return status, raised, state["escaped"], out.fetch() + err.fetch(), len(log.calls)


def run_injection(sh, env, limit, part):
    from rv.instruments.faults import FaultInjector

    inj = FaultInjector([os.path.join(repo.SRC, "clikit"), os.path.abspath(__file__)])
    try:
        status, raised, esc, text, ncalls = injection_run(sh, env, inj, None, None, record=True)
        if status != 0 or raised is not None:
            sh.inconclusive_because("the clean recording run of the fault injector ended with status %r / %r" % (status, raised))
            return
        points = sorted(inj.seen)
        sh.count("injection_points_found", len(points) if part[0] == 0 else 0)
        if len(points) < 50:
            sh.inconclusive_because("only %d lines were recorded inside the handler's extent" % len(points))
            return
        mine = [p for i, p in enumerate(points) if i % part[1] == part[0]]
        if limit and len(mine) > limit:
            mine = sh.rng.sample(mine, limit)
        for p in mine:
            for exc in (ValueError("injected <b>fault</b> </info>"), KeyError("injected"), Injected("injected fault")):
                case = {"kind": "injection", "file": os.path.relpath(p[0], repo.REPO), "line": p[1], "exception": type(exc).__name__}
                sh.case(("inj", case["file"], p[1], case["exception"]), True)
                status, raised, esc, text, ncalls = injection_run(sh, env, inj, p, exc)
                if not inj.fired:
                    sh.count("injections_not_reached")
                    continue
                sh.count("injections")
                if raised is not None:
                    sh.violate("run-raises", case, "fault %s at %s:%d escaped from run as %r" % (case["exception"], case["file"], p[1], raised))
                    continue
                if not isinstance(status, int) or not (0 <= status <= 255):
                    sh.violate("status-range", case, "run returned %r" % (status,))
                    continue
                if ncalls != 1:
                    sh.violate("handler-count", case, "handler invoked %d times" % ncalls)
                if esc is not None:
                    sh.count("injections_escaping_handler")
                    if status < 1:
                        sh.violate("exception-status", case, "the fault left the handler as %r but run returned status %d" % (esc, status))
                    elif not text.strip():
                        sh.violate("exception-report", case, "the fault left the handler as %r, status %d, but nothing was printed" % (esc, status))
                else:
                    sh.count("injections_swallowed_by_library")
        sh.sample({"kind": "injection", "points": len(points), "example": [os.path.relpath(points[0][0], repo.REPO), points[0][1]]})
    finally:
        inj.close()


def outcome_space():
    outs = [("result", n) for n, _ in RESULTS] + [("raise", k) for k in EXC_KINDS]
    return outs


def plan(tier, seed):
    env = {"PATH": "/nonexistent-verif-path"}
    if tier == "quick":
        return [{"part": "outcomes", "n": 500, "_env": env} for _ in range(3)] + [{"part": "outcomes-strata", "slice": [i, 2], "_env": env} for i in range(2)] + [{"part": "inject", "limit": 75, "slice": [i, 2], "_env": env} for i in range(2)] + [
            {"part": "hostile", "_env": env}, {"part": "reuse", "n": 300, "_env": env}]
    specs = [{"part": "outcomes-full", "slice": [i, 10], "_env": env} for i in range(10)]
    specs += [{"part": "inject", "limit": 0, "slice": [i, 5], "_env": env} for i in range(5)] + [{"part": "hostile", "_env": env}, {"part": "reuse", "n": 5000, "_env": env}]
    return specs


def run(sh, spec):
    try:
        _run(sh, spec)
    finally:
        import shutil

        for d in getattr(Env, "all_tempdirs", []):
            shutil.rmtree(d, ignore_errors=True)


def _run(sh, spec):
    repo.activate()
    env = Env()
    rng = sh.rng
    part = spec["part"]
    outs = outcome_space()
    if part == "outcomes":
        for i in range(spec["n"]):
            o = rng.choice(outs)
            run_case(sh, env, o, rng.choice(sorted(MESSAGES)) if o[0] == "raise" else "plain", rng.choice(VERBOSITY), rng.choice(LISTENERS), rng.random() < 0.5,
                     quiet=rng.random() < 0.08)
        sh.sample({"outcome": list(o), "message": "(last case of this shard)", "note": "one of the sampled outcome runs"})
    elif part == "outcomes-strata":
        # every way of failing x the message classes that look like markup, once each (the random part may miss a pairing)
        i, n = spec["slice"]
        k = 0
        for o in outs:
            if o[0] != "raise":
                continue
            for m in ("closing", "crossed", "opening", "ends-backslash", "ends-2-backslashes", "anyclose"):
                k += 1
                if k % n != i:
                    continue
                run_case(sh, env, o, m, VERBOSITY[k % len(VERBOSITY)], "none", k % 2 == 0)
                sh.count("stratified_exception_runs")
    elif part == "outcomes-full":
        k = 0
        i, n = spec["slice"]
        for o in outs:
            msgs = sorted(MESSAGES) if o[0] == "raise" else ["plain"]
            for m in msgs:
                for v in VERBOSITY:
                    for l in LISTENERS:
                        for ansi in (False, True):
                            k += 1
                            if k % n != i:
                                continue
                            run_case(sh, env, o, m, v, l, ansi)
        for o in outs:
            run_case(sh, env, o, "closing" if o[0] == "raise" else "plain", [], "none", False, quiet=True)
    elif part == "reuse":
        run_reuse(sh, env, rng, spec["n"])
    elif part == "hostile":
        import itertools

        for ansi in (False, True):
            for t in HOSTILE_TOKENS:
                for line in ([t], ["alpha", t], ["alpha", "beta", t], ["alpha", "beta", "x", t], ["help", t], [t, "--help"], ["alpha", "beta", "x", "--level=" + t],
                             ["--", t], ["alpha", "beta", "x", "y", t, "-vvv"]):
                    run_hostile_line(sh, env, line, ansi)
        sh.sample({"kind": "hostile-line", "tokens": ["alpha", "</info>"]})
    else:
        run_injection(sh, env, spec["limit"], spec["slice"])


def finalize(tier, merged):
    c = merged["counters"]
    inc = []
    for k in ("runs", "result_runs", "exception_runs", "hostile_runs", "injections", "injections_escaping_handler", "reuse_runs"):
        if not c.get(k):
            inc.append("counter %s is zero" % k)
    return {"inconclusive": inc, "coverage": {"injection_points": c.get("injection_points_found", 0)}}


def replay(sh, case):
    os.environ["PATH"] = "/nonexistent-verif-path"
    repo.activate()
    env = Env()
    if case.get("kind") == "hostile-line":
        run_hostile_line(sh, env, case["tokens"], case["ansi"])
    elif case.get("kind") == "injection":
        sh.inconclusive_because("injection replay: rerun the check (injection points are deterministic for a given tree)")
    else:
        run_case(sh, env, tuple(case["outcome"]), case["message"], case["flags"], case["listener"], case["ansi"], case.get("quiet", False), style=case.get("style"))
