"""C15 - section outputs keep the screen equal to the stacked section contents.

The byte stream of the shared recording stream is replayed on the terminal
emulator (rv/instruments/term.py, deferred auto-wrap) and compared with a
screen model: for each section in creation order its current logical lines,
each occupying ceil(len/width) rows (1 if empty).
"""
import itertools
import os

from rv import repo
from rv.instruments.term import Term, UnknownSequence

PROPERTY = "C15"
LEVEL = "exploration"
EXHAUSTIVE = {"quick": True, "thorough": True}
RULE = (
    "operation sequences over up to 3 sections of one output: create, write_line(s, t), overwrite(s, t), clear(s), "
    "clear(s, 1|2) (n up to one more than the section's line count; not on an empty section) with t in {short, width-1, width, width+1, 2.5*width, two "
    "lines, empty}; every applicable sequence up to depth D is run from scratch on a forced-ANSI output at terminal widths "
    "10 and 80 (COLUMNS), the whole stream replayed on the emulator after the last operation and compared with the stacked "
    "model; the same sequences on an output without ANSI support must produce exactly the appended lines and no control "
    "code. Random histories of length up to 40, half of them with sections created inside indentation scopes, a fifth with texts of 30 and 70 lines (more rows than a real terminal is high), in thorough also with "
    "Also: one-column non-ASCII lines (Cyrillic, Greek, accents, symbols) of exactly and just over the width in a quarter of the random histories. "
    "style tags in the text. Two-output histories (2-30 steps): the standard and error output of one I/O object, each with its own stream and screen, sections created singly or pairwise through IO.section(), write_line with flag words at section verbosity 0/1/2/4 (a suppressed write leaves no trace), texts with backslash-escaped '<' whose visible width is at / next to the terminal width. non-trivial = history that touches >= 2 sections with a write to a non-last section, or "
    "contains a wrapped line; distinct by (width, operation tuple)."
)
BOUND = {
    "quick": "all applicable sequences of depth <= 4 (first op = create) at widths 10 and 80; 1500 random histories of length <= 40; 3000 two-output histories",
    "thorough": "all applicable sequences of depth <= 5 at widths 10 and 80; 100000 random histories of length <= 40; 200000 two-output histories",
}
ASSUMPTIONS = [
    "the terminal does not scroll (unbounded height) and uses deferred auto-wrap; trailing blanks of a row are ignored",
    "clear(n) removes the last n logical lines of the section (all of them when it holds fewer)",
    "undecorated = plain formatter (on a stream with or without ANSI support) or an unforced ANSI formatter on a stream without ANSI support",
]


def texts_for(w):
    return ["ab", "x" * (w - 1), "y" * w, "z" * (w + 1), "q" * int(2.5 * w), "l1\nl2", ""]


def script_texts(w):
    """Non-ASCII lines whose characters take one column each (Cyrillic, Greek, accents, symbols): exactly one row, and one over."""
    cyr = "\u0436\u0438\u0432\u043e\u0439 \u0442\u0435\u043a\u0441\u0442 "
    grk = "\u03b1\u03b2\u03b3 \u00e9\u00e0\u00fc \u00b0\u00b1\u2500\u2502 "
    return [(cyr * w)[:w].rstrip() or "\u0436" * w, (grk * w)[:w + 1]]


def rows_of(lines, w):
    out = []
    for line in lines:
        if line == "":
            out.append("")
        else:
            for k in range(0, len(line), w):
                out.append(line[k:k + w].rstrip())
    return out


def has_wrapped_among_last(lines, n, w):
    return any(len(l) > w for l in lines[-n:])


class Lab(object):
    def __init__(self):
        from clikit.api.io.output import Output
        from clikit.formatter import AnsiFormatter, PlainFormatter
        from clikit.io.output_stream import BufferedOutputStream

        self.Output, self.AnsiFormatter, self.PlainFormatter, self.Stream = Output, AnsiFormatter, PlainFormatter, BufferedOutputStream

        class AnsiStream(BufferedOutputStream):
            def supports_ansi(self):
                return True

        self.AnsiStream = AnsiStream


def applicable_ops(model, w, nsec_max=3):
    ops = []
    if len(model) < nsec_max:
        ops.append(("new",))
    T = range(7)
    for s in range(len(model)):
        for t in T:
            ops.append(("w", s, t))
        for t in T:
            ops.append(("ow", s, t))
        ops.append(("clr", s))
        for n in (1, 2):
            # n may exceed the number of lines the section holds (then everything goes), but not an empty section
            if len(model[s]) >= 1 and n <= len(model[s]) + 1:
                ops.append(("clrn", s, n))
    return ops


def apply_model(model, op, texts, plain_log=None, indents=None):
    k = op[0]
    if k == "new":
        model.append([])
        return
    s = op[1]
    ind = " " * (indents[s] if indents else 0)
    if k in ("w", "ow"):
        text = texts[op[2]] if isinstance(op[2], int) else op[2]
        lines = [(ind + l) if l else l for l in text.split("\n")]
        if k == "ow":
            model[s] = lines
        else:
            model[s] = model[s] + lines
        if plain_log is not None:
            plain_log.append(text)
    elif k == "clr":
        model[s] = []
    elif k == "clrn":
        model[s] = model[s][: max(0, len(model[s]) - op[2])]


def execute(lab, ops, w, texts, ansi=True, indents_at_creation=None, plain_kind=0):
    """Runs the ops on the real code; returns (stream text, model, plain_log, indents).
    plain_kind selects the undecorated configuration: 0 = plain formatter on a stream without ANSI support,
    1 = plain formatter on a stream that claims ANSI support (decoration switched off by the formatter),
    2 = unforced ANSI formatter on a stream without ANSI support."""
    os.environ["COLUMNS"] = str(w)
    if ansi:
        stream = lab.Stream()
        out = lab.Output(stream, lab.AnsiFormatter(forced=True))
    elif plain_kind == 1:
        stream = lab.AnsiStream()
        out = lab.Output(stream, lab.PlainFormatter())
    elif plain_kind == 2:
        stream = lab.Stream()
        out = lab.Output(stream, lab.AnsiFormatter())
    else:
        stream = lab.Stream()
        out = lab.Output(stream, lab.PlainFormatter())
    secs = []
    model = []
    plain_log = []
    indents = []
    nnew = 0
    for op in ops:
        if op[0] == "new":
            ind = indents_at_creation[nnew] if indents_at_creation else 0
            nnew += 1
            if ind:
                with out.indent(ind):
                    secs.append(out.section())
            else:
                secs.append(out.section())
            indents.append(ind)
        elif op[0] == "w":
            secs[op[1]].write_line(texts[op[2]] if isinstance(op[2], int) else op[2])
        elif op[0] == "ow":
            secs[op[1]].overwrite(texts[op[2]] if isinstance(op[2], int) else op[2])
        elif op[0] == "clr":
            secs[op[1]].clear()
        elif op[0] == "clrn":
            secs[op[1]].clear(op[2])
        apply_model(model, op, texts, plain_log, indents)
    return stream.fetch(), model, plain_log, indents


def strip_tags(s):
    import re
    return re.sub(r"</?[a-z0-9]*>", "", s)


def judge(sh, lab, ops, w, texts, record, indents_at_creation=None, tagged=False):
    """ANSI run vs screen model, plain run vs appended lines."""
    try:
        data, model, plain_log, indents = execute(lab, ops, w, texts, True, indents_at_creation)
    except Exception as e:
        sh.violate("operation-raises", record, "raised %r" % (e,))
        return
    t = Term(w)
    try:
        t.feed(data)
    except UnknownSequence as e:
        sh.inconclusive_because("terminal emulator met an unknown control sequence %s" % e)
        return
    got = t.screen()
    want = []
    for sec in model:
        want += rows_of([strip_tags(l) for l in sec] if tagged else sec, w)
    while want and want[-1] == "":
        want.pop()
    sh.count("screens_compared")
    sh.count("bytes_replayed", len(data))
    if got != want:
        sh.violate("screen", record, "width %d: screen %r, stacked section contents %r" % (w, got, want), classify(ops, model_history(ops, texts), w))
    # plain degradation (three undecorated configurations, one per case)
    plain_kind = hash(tuple(ops)) % 3
    try:
        pdata, _, plog, _ = execute(lab, ops, w, texts, False, indents_at_creation, plain_kind)
    except Exception as e:
        sh.violate("operation-raises", record, "plain output: raised %r" % (e,))
        return
    exp = ""
    k = 0
    model2 = []
    inds = []
    nn = 0
    for op in ops:
        if op[0] == "new":
            inds.append(indents_at_creation[nn] if indents_at_creation else 0)
            nn += 1
        if op[0] in ("w", "ow"):
            text = texts[op[2]] if isinstance(op[2], int) else op[2]
            ind = " " * inds[op[1]]
            text = "\n".join((ind + l) if l else l for l in text.split("\n"))
            exp += (strip_tags(text) if tagged else text) + "\n"
    sh.count("plain_streams_compared")
    if pdata != exp or "\x1b" in pdata:
        sh.violate("plain-degradation", record, "undecorated output (configuration %d) wrote %r, expected the appended lines %r" % (plain_kind, pdata[:120], exp[:120]))


def model_history(ops, texts):
    """Model state before each op (for the classifier)."""
    model = []
    hist = []
    for op in ops:
        hist.append([list(s) for s in model])
        apply_model(model, op, texts)
    return hist


def classify(ops, hist, w):
    return None


def nontrivial(ops, texts, w):
    touched = set()
    nsec = 0
    wrote_non_last = False
    wrapped = False
    for op in ops:
        if op[0] == "new":
            nsec += 1
        elif op[0] in ("w", "ow"):
            touched.add(op[1])
            if op[1] < nsec - 1:
                wrote_non_last = True
            text = texts[op[2]] if isinstance(op[2], int) else op[2]
            if any(len(l) > w for l in text.split("\n")):
                wrapped = True
    return (len(touched) >= 2 and wrote_non_last) or wrapped


def enumerate_sequences(depth, w, texts, part):
    """DFS over applicable operations (first op = create)."""
    count = [0]

    def rec(ops, model, d):
        count[0] += 1
        if count[0] % part[1] == part[0]:
            yield list(ops)
        if d == 0:
            return
        for op in applicable_ops(model, w):
            m2 = [list(s) for s in model]
            apply_model(m2, op, texts)
            ops.append(op)
            for x in rec(ops, m2, d - 1):
                yield x
            ops.pop()

    for x in rec([("new",)], [[]], depth - 1):
        yield x


def plan(tier, seed):
    if tier == "quick":
        specs = [{"part": "enum", "depth": 4, "width": w, "slice": [i, 3]} for w in (10, 80) for i in range(3)]
        specs += [{"part": "random", "n": 750, "rich": False} for _ in range(2)] + [{"part": "multi", "n": 1500} for _ in range(2)]
        return specs
    specs = [{"part": "enum", "depth": 5, "width": w, "slice": [i, 8]} for w in (10, 80) for i in range(8)]
    specs += [{"part": "random", "n": 12500, "rich": True} for _ in range(8)] + [{"part": "multi", "n": 25000} for _ in range(8)]
    return specs


def run(sh, spec):
    repo.activate()
    lab = Lab()
    if spec["part"] == "multi":
        run_multi(sh, lab, spec["n"])
    elif spec["part"] == "enum":
        w = spec["width"]
        texts = texts_for(w)
        last = None
        for ops in enumerate_sequences(spec["depth"], w, texts, spec["slice"]):
            rec = {"width": w, "ops": [list(o) for o in ops]}
            judge(sh, lab, ops, w, texts, rec)
            nt = nontrivial(ops, texts, w)
            sh.case((w, tuple(ops)), nt)
            if nt:
                last = rec
        if last:
            sh.sample(dict(last, texts=texts))
    else:
        rng = sh.rng
        for i in range(spec["n"]):
            w = rng.choice([10, 10, 17, 80])
            texts = texts_for(w)
            rich = rng.random() < 0.5
            tagged = spec["rich"] and rng.random() < 0.3
            tall = (not tagged) and rng.random() < 0.2
            if tagged:
                texts = texts + ["<b>bold</b> and <info>green</info>", "<error>" + "e" * (w + 3) + "</error>"]
            if tall:
                # more rows than any real terminal is high
                texts = texts + ["\n".join("row%d" % k for k in range(30)), "\n".join("r%d" % k for k in range(70))]
            script = (not tagged) and (not tall) and rng.random() < 0.25
            if script:
                texts = texts + script_texts(w)
            ops = [("new",)]
            model = [[]]
            for _ in range(rng.randint(1, 40)):
                cands = applicable_ops(model, w)
                if tagged or tall or script:
                    cands += [("w", s, t) for s in range(len(model)) for t in (7, 8)]
                op = cands[rng.randrange(len(cands))]
                ops.append(op)
                apply_model(model, op, texts)
            nnew = sum(1 for o in ops if o[0] == "new")
            inds = [rng.choice([0, 0, 2, 4]) for _ in range(nnew)] if rich else None
            rec = {"width": w, "ops": [list(o) for o in ops], "indents": inds, "tagged": tagged, "tall": tall, "script": script}
            if script:
                sh.count("histories_with_non_ascii_lines")
            judge(sh, lab, ops, w, texts, rec, inds, tagged)
            sh.case((w, tuple(ops), tuple(inds or ())), nontrivial(ops, texts, w))
            if i < 1:
                sh.sample(rec)


def lowest(fl):
    if not fl:
        return 0
    return 1 if fl & 1 else (2 if fl & 2 else (4 if fl & 4 else 0))


def run_multi(sh, lab, n):
    """Histories over TWO outputs (as the standard and error output of one I/O object), each with its own stream and
    screen and its own sections - created one by one or pairwise through IO.section() -, with flagged writes at varying
    section verbosity (a suppressed write leaves no trace, then or later) and texts with backslash-escaped '<'."""
    from clikit.api.io import IO, Input
    from clikit.io.input_stream import StringInputStream

    rng = sh.rng
    for h in range(n):
        w = rng.choice([10, 12, 17, 80])
        os.environ["COLUMNS"] = str(w)
        streams = [lab.Stream(), lab.Stream()]
        outs = [lab.Output(streams[0], lab.AnsiFormatter(forced=True)), lab.Output(streams[1], lab.AnsiFormatter(forced=True))]
        io = IO(Input(StringInputStream("")), outs[0], outs[1])
        secs = [[], []]      # real section objects per output
        model = [[], []]     # per output: list of sections, each a list of visible lines
        texts = texts_for(w) + ["a \\<b> c", "\\<" + "x" * (w - 1), "\\<\\<" + "y" * (w - 2), "z" * (w - 2) + " \\<", "if a \\< b: \\<" + "p" * w, "<b>bold</b> " + "k" * (w - 5)]
        steps = []
        ok = True
        for step in range(rng.randint(2, 30)):
            o = rng.randrange(2)
            r = rng.random()
            if not secs[o] or (r < 0.12 and len(secs[o]) < 3):
                if rng.random() < 0.4 and len(secs[0]) < 3 and len(secs[1]) < 3:
                    sio = io.section()
                    secs[0].append(sio.output)
                    secs[1].append(sio.error_output)
                    model[0].append([])
                    model[1].append([])
                    steps.append(["new-io-section"])
                else:
                    secs[o].append(outs[o].section())
                    model[o].append([])
                    steps.append(["new", o])
                continue
            k = rng.randrange(len(secs[o]))
            sec = secs[o][k]
            if r < 0.2:
                v = rng.choice([0, 1, 2, 4])
                sec.set_verbosity(v)
                steps.append(["set_verbosity", o, k, v])
                continue
            text = rng.choice(texts)
            shown = [strip_tags(l.replace("\\<", "\x00")).replace("\x00", "<") for l in text.split("\n")]
            try:
                if r < 0.6:
                    fl = rng.choice([None, None, 0, 1, 2, 4, 3, 6])
                    sec.write_line(text, fl)
                    steps.append(["write_line", o, k, text, fl])
                    if sec.verbosity >= lowest(fl):
                        model[o][k] = model[o][k] + shown
                    else:
                        sh.count("multi_suppressed_writes")
                elif r < 0.75:
                    sec.overwrite(text)
                    steps.append(["overwrite", o, k, text])
                    model[o][k] = shown
                elif r < 0.88:
                    sec.clear()
                    steps.append(["clear", o, k])
                    model[o][k] = []
                else:
                    nlines = rng.choice([1, 2])
                    if not model[o][k]:
                        continue
                    sec.clear(nlines)
                    steps.append(["clear", o, k, nlines])
                    model[o][k] = model[o][k][: max(0, len(model[o][k]) - nlines)]
            except Exception as e:
                sh.violate("operation-raises", {"kind": "multi", "width": w, "steps": steps}, "step %d raised %r" % (step, e))
                ok = False
                break
        if not ok:
            continue
        record = {"kind": "multi", "width": w, "steps": steps}
        sh.case(("multi", w, tuple(tuple(str(x) for x in st) for st in steps)), any(st[0] == "write_line" and st[4] for st in steps) or (secs[0] and secs[1]))
        for o in range(2):
            t = Term(w)
            try:
                t.feed(streams[o].fetch())
            except UnknownSequence as e:
                sh.inconclusive_because("terminal emulator met an unknown control sequence %s" % e)
                return
            want = []
            for sec in model[o]:
                want += rows_of(sec, w)
            while want and want[-1] == "":
                want.pop()
            sh.count("multi_screens_compared")
            if t.screen() != want:
                sh.violate("screen", record, "width %d, %s output: screen %r, stacked section contents %r" % (w, "standard" if o == 0 else "error", t.screen(), want))
                break
        if h < 1:
            sh.sample(record)


def finalize(tier, merged):
    c = merged["counters"]
    inc = []
    if c.get("multi_screens_compared", 0) < 1000 or not c.get("multi_suppressed_writes"):
        inc.append("two-output histories: too few screens compared or no suppressed write observed: %r" % (c,))
    if c.get("screens_compared", 0) < 1000 or not c.get("plain_streams_compared") or not c.get("bytes_replayed"):
        inc.append("too few screens compared: %r" % (c,))
    return {"inconclusive": inc}


def replay(sh, case):
    repo.activate()
    lab = Lab()
    w = case["width"]
    texts = texts_for(w)
    if case.get("tagged"):
        texts = texts + ["<b>bold</b> and <info>green</info>", "<error>" + "e" * (w + 3) + "</error>"]
    if case.get("script"):
        texts = texts + script_texts(w)
    if case.get("tall"):
        texts = texts + ["\n".join("row%d" % k for k in range(30)), "\n".join("r%d" % k for k in range(70))]
    if case.get("kind") == "multi":
        sh.inconclusive_because("two-output history replay: rerun the check with the same VERIF_SEED (the record lists the steps)")
        return
    ops = [tuple(o) for o in case["ops"]]
    judge(sh, lab, ops, w, texts, case, case.get("indents"), case.get("tagged", False))
