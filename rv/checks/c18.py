"""C18 - questions return only valid answers, count attempts exactly and terminate.

Boundary recorders: a scripted InputStream that counts line reads and
end-of-input reads and aborts the run (BaseException) when a read budget is
exhausted - termination is decided by that budget, never by time; recording
output streams.  Oracle: a dialogue model written from the statement.
The shard runs with PATH pointing at an empty directory so that no stty is
reachable and the line-reading path is taken.
"""
import itertools
import os
import re

from rv import repo
from rv.instruments.cpubudget import CpuBudgetExceeded, cpu_budget

PROPERTY = "C18"
LEVEL = "exploration"
EXHAUSTIVE = {"quick": True, "thorough": True}
RULE = (
    "choice lists (1-5 entries incl. numeric-looking, duplicated, spaced, case-differing) x single/multi-select x default "
    "(none / index / index list) x attempt limit {unlimited,1,2,3} x every script of up to L typed lines over a 17-entry "
    "adversarial alphabet, each followed by end of input (last line with or without newline); each dialogue runs on a "
    "fresh question with a scripted input stream (read budget 12 end-of-input reads; 10 s of process CPU time per ask) and recording outputs; the random scripts also draw from nine long entries (30-80 characters); compared with "
    "the dialogue model: returned value, lines consumed, errors printed (counted structurally from the error stream), "
    "failure after exactly N invalid entries, stop at end of input. Confirmation: patterns x answers x defaults; "
    "Also: typed lines that look like style markup; refilled input after an end-of-input abort on one BufferedIO; every fifth script read through the library's file-stream wrapper. "
    "non-interactive: the very default given is returned (None, index, index text, spaced index list, name), zero reads, zero bytes. Re-ask: one question object (choice / confirmation / validated) asked 2-3 times with random scripts, each ask compared (result, reads, both streams) with a new question. non-trivial = script with >= 1 invalid entry; "
    "distinct by (choices id, config, script)."
)
BOUND = {
    "quick": "all scripts of length <= 2 (307) x 6 lists x 2 modes x <=3 defaults x 4 limits + 6000 random scripts of length 3-4; confirmation 3x19x2; non-interactive 400; 1500 re-ask histories",
    "thorough": "all scripts of length <= 3 (5220) x the same 132 configurations + 300000 random of length 4; confirmation and non-interactive as quick",
}
ASSUMPTIONS = [
    "in multi-select the entry is split at commas after removing spaces (so a choice containing a space can only be selected by index there)",
    "at end of input a limited question may use up to N further reads, an unlimited one must stop at the first end-of-input read",
    "errors printed are counted structurally: text written between two reads of the input minus the (verbatim repeated) prompt, and text written after the last read",
]

ANS = ["", "a", "1", "0", "dup", "-1", "99", "zz", " b ", "a,b", "1,,2", "a, 1", "x y", "10", "A", "b,dup", "1,dup,b"]
LISTS = [["a", "b", "c"], ["a"], ["1", "0", "c"], ["dup", "b", "dup"], ["x y", "A", "a"], ["a", "b", "c", "d", "10"]]
LIMITS = [None, 1, 2, 3]
CPU_BUDGET_S = 10.0
STOP = [0]
# long typed lines (used by the random part only): names of 30-60 characters, with and without a character that no
# choice can contain, long lists, long digit strings
LONG_ANS = ["Superman_and_Batman_and_Spiderman_and_Aquaman_too!", "a" * 40 + "!", "a," * 30 + "?", "0," * 40 + "0", "9" * 50, "a-b_c" * 12 + " x",
            ",".join(["a"] * 25) + ";", "b" * 64, "-" * 45 + ".",
            # typed lines that look like style markup or end in a backslash: invalid entries like any other
            "<fg=zzz>x</>", "</error>", "<b>x", "a\\", "<info>a</info>", "<bg=nosuch>1</>"]
QTEXT = "QQpick"
EOF_BUDGET = 12


class ReadBudgetExceeded(BaseException):
    pass


def configs():
    out = []
    for ci, C in enumerate(LISTS):
        for multi in (False, True):
            defaults = (None, 0, 1) if not multi else (None, "0", "0,1")
            for d in defaults:
                if not multi and d is not None and d >= len(C):
                    continue
                if multi and d == "0,1" and len(C) < 2:
                    continue
                for limit in LIMITS:
                    out.append((ci, multi, d, limit))
    return out


def classify(entry, C, multi, default):
    t = entry.strip()
    if t == "":
        if default is None:
            return None
        t = str(default)

    def one(v):
        hits = [c for c in C if c == v]
        if len(hits) > 1:
            return None
        if len(hits) == 1:
            return hits[0]
        if re.fullmatch(r"[+-]?[0-9]+", v):
            i = int(v)
            if 0 <= i < len(C):
                return C[i]
        return None

    if multi:
        u = t.replace(" ", "")
        if not re.fullmatch(r"[a-zA-Z0-9_-]+(?:,[a-zA-Z0-9_-]+)*", u):
            return None
        out = []
        for p in u.split(","):
            r = one(p)
            if r is None:
                return None
            out.append(r)
        return ("valid", out)
    r = one(t)
    return ("valid", r) if r is not None else None


class Lab(object):
    def __init__(self):
        from clikit.api.io import IO, Input, InputStream, Output
        from clikit.formatter import PlainFormatter
        from clikit.io.output_stream import BufferedOutputStream
        from clikit.ui.components import ChoiceQuestion, ConfirmationQuestion, Question

        self.IO, self.Input, self.Output = IO, Input, Output
        self.PlainFormatter, self.BufferedOutputStream = PlainFormatter, BufferedOutputStream
        self.ChoiceQuestion, self.ConfirmationQuestion, self.Question = ChoiceQuestion, ConfirmationQuestion, Question

        class Script(InputStream):
            def __init__(self, lines):
                self.lines = list(lines)
                self.reads = 0
                self.eofs = 0
                self.char_reads = 0
                self.on_read = None
                self.marks = []

            def read_line(self, length=None):
                self.reads += 1
                if self.on_read is not None:
                    self.marks.append(self.on_read())
                if self.lines:
                    return self.lines.pop(0)
                self.eofs += 1
                if self.eofs > EOF_BUDGET:
                    raise ReadBudgetExceeded()
                return ""

            def read(self, n):
                self.char_reads += 1
                return ""

            def close(self):
                pass

            def is_closed(self):
                return False

        self.Script = Script

        import io as _io

        from clikit.io.input_stream import StreamInputStream

        class FileScript(StreamInputStream):
            """The same script read through the library's own wrapper of a text file object (what a console I/O reads from)."""

            def __init__(self, lines):
                StreamInputStream.__init__(self, _io.StringIO("".join(lines)))
                self.reads = 0
                self.eofs = 0
                self.char_reads = 0
                self.on_read = None
                self.marks = []

            def read_line(self, length=None):
                self.reads += 1
                if self.on_read is not None:
                    self.marks.append(self.on_read())
                r = StreamInputStream.read_line(self, length)
                if r == "":
                    self.eofs += 1
                    if self.eofs > EOF_BUDGET:
                        raise ReadBudgetExceeded()
                return r

        self.FileScript = FileScript
        self.made = 0

    def io(self, lines):
        self.made += 1
        st = self.FileScript(lines) if self.made % 5 == 0 else self.Script(lines)  # every fifth dialogue reads from a file object
        out, err = self.BufferedOutputStream(), self.BufferedOutputStream()
        io = self.IO(self.Input(st), self.Output(out, self.PlainFormatter()), self.Output(err, self.PlainFormatter()))
        st.on_read = lambda: len(err.fetch())
        return io, st, out, err


def run_dialogue(sh, lab, cfg, script, last_newline=True):
    ci, multi, default, limit = cfg
    C = LISTS[ci]
    case = {"kind": "choice", "choices": C, "multi": multi, "default": default, "limit": limit, "script": list(script), "last_newline": last_newline}
    q = lab.ChoiceQuestion(QTEXT, list(C), default)
    q.set_max_attempts(limit)
    q.set_multi_select(multi)
    lines = [s + "\n" for s in script]
    if lines and not last_newline and script[-1] != "":
        lines[-1] = script[-1]
    io, st, out, err = lab.io(lines)
    try:
        with cpu_budget(CPU_BUDGET_S):
            res = ("ret", q.ask(io))
    except ReadBudgetExceeded:
        res = ("budget",)
    except CpuBudgetExceeded:
        sh.case((ci, multi, default, limit, tuple(script), last_newline), True)
        sh.violate("termination", case, "the question used more than %.0f s of CPU time on a script of %d line(s) (longest %d characters)" % (
            CPU_BUDGET_S, len(script), max([len(x) for x in script] or [0])))
        STOP[0] += 1  # every further case of this kind would cost the whole budget again
        return
    except Exception as e:
        res = ("exc", type(e).__name__, str(e))
    # ---- model --------------------------------------------------------------
    invalid = 0
    exp = None
    consumed = 0
    for s in script:
        if limit is not None and invalid >= limit:
            break
        consumed += 1
        c = classify(s, C, multi, default)
        if c is not None:
            exp = ("ret", c[1])
            break
        invalid += 1
    if exp is None:
        exp = ("exhausted",) if (limit is not None and invalid >= limit) else ("eof",)
    nontrivial = invalid >= 1
    sh.case((ci, multi, default, limit, tuple(script), last_newline), nontrivial)
    sh.count("dialogues")
    if st.char_reads:
        sh.inconclusive_because("the question read single characters: the stty path was taken, line-reading path not decided")
        return
    errtext = err.fetch()
    # errors printed, counted structurally: everything written before the first read is the prompt; what is written
    # between two reads is (error text of the attempt) + (the same prompt again); text after the last read is error text
    marks = st.marks
    errors = 0
    if marks:
        prompt = errtext[:marks[0]]
        for a, b in zip(marks, marks[1:]):
            between = errtext[a:b]
            if not between.endswith(prompt):
                # printed errors cannot be separated from prompts: the clauses on reads, answers and limits are still decided
                errors = None
                break
            if between[:len(between) - len(prompt)].strip():
                errors += 1
        if errors is not None and errtext[marks[-1]:].strip():
            errors += 1
    sh.count("reads_observed", st.reads)
    sh.count("errors_observed", max(errors or 0, 0))

    def errors_differ(n):
        if errors is None:
            sh.inconclusive_because("the prompt is not repeated verbatim between attempts: printed errors cannot be separated from prompts")
            return False
        return errors != n

    if out.fetch():
        sh.violate("writes-to-stdout", case, "question wrote %r to the standard output" % out.fetch()[:60])
    if exp[0] == "ret":
        if res[0] != "ret" or res[1] != exp[1] or type(res[1]) is not type(exp[1]):
            sh.violate("answer", case, "returned %r, the dialogue model says %r" % (res, exp))
            return
        members = res[1] if multi else [res[1]]
        if any(m not in C for m in members):
            sh.violate("answer-not-a-member", case, "returned %r, choices %r" % (res[1], C))
        if st.reads != consumed:
            sh.violate("reads", case, "consumed %d input line(s), %d attempt(s) were made" % (st.reads, consumed))
        elif errors_differ(invalid):
            sh.violate("errors", case, "%d error line(s) printed for %d invalid entr(ies): %r" % (errors, invalid, errtext[-200:]))
        sh.count("answered")
    elif exp[0] == "exhausted":
        if res[0] != "exc":
            sh.violate("attempt-limit", case, "limit %r, %d invalid entries: question gave %r instead of failing" % (limit, invalid, res))
            return
        if st.reads != consumed:
            sh.violate("reads", case, "failed after consuming %d line(s), expected %d" % (st.reads, consumed))
        elif errors_differ(invalid - 1):
            sh.violate("errors", case, "%d error line(s) printed + final failure for %d invalid entr(ies)" % (errors, invalid))
        sh.count("exhausted")
    else:
        if res[0] == "budget":
            sh.violate("end-of-input", case, "question kept asking after end of input (%d end-of-input reads, budget %d)" % (st.eofs, EOF_BUDGET))
            return
        if res[0] != "exc":
            sh.violate("end-of-input", case, "question returned %r although the input ended without a valid answer" % (res,))
            return
        allowed = 1 if limit is None else limit
        if st.eofs > allowed:
            sh.violate("end-of-input", case, "%d end-of-input reads, at most %d allowed" % (st.eofs, allowed))
        if st.reads - st.eofs != len(script):
            sh.violate("reads", case, "consumed %d script line(s) of %d before giving up" % (st.reads - st.eofs, len(script)))
        sh.count("ended_at_eof")


def interchange(sh, lab):
    """An index and the value it denotes are interchangeable."""
    for ci, C in enumerate(LISTS):
        for multi in (False, True):
            for i, v in enumerate(C):
                if str(i) in C:
                    continue
                cv = classify(v, C, multi, None)
                if cv is None:
                    continue
                outs = []
                for entry in (v, str(i)):
                    q = lab.ChoiceQuestion(QTEXT, list(C))
                    q.set_multi_select(multi)
                    q.set_max_attempts(1)
                    io, st, out, err = lab.io([entry + "\n"])
                    try:
                        outs.append(("ret", q.ask(io)))
                    except Exception as e:
                        outs.append(("exc", type(e).__name__))
                sh.case(("interchange", ci, multi, i), True)
                sh.count("interchange_pairs")
                if outs[0] != outs[1]:
                    sh.violate("index-value-interchange", {"kind": "interchange", "choices": C, "multi": multi, "index": i},
                               "entry %r gives %r, entry %r gives %r" % (v, outs[0], str(i), outs[1]))


PATTERNS = ["(?i)^y", "^(yes|ja)$", "(?i)^(o|ok)"]
CONF_ANSWERS = ["", "y", "yes", "Y", "n", "no", "ja", "ok", "O", " y ", "ny", "yy", "0", "true", "YES", "Ja", "Yes", "OK", "JA"]


def confirmations(sh, lab):
    for pat in PATTERNS:
        for ans in CONF_ANSWERS:
            for default in (True, False):
                case = {"kind": "confirm", "pattern": pat, "answer": ans, "default": default}
                q = lab.ConfirmationQuestion(QTEXT, default, pat)
                io, st, out, err = lab.io([ans + "\n"])
                sh.case(("confirm", pat, ans, default), ans.strip() != "")
                try:
                    got = q.ask(io)
                except Exception as e:
                    sh.violate("confirmation", case, "raised %r" % (e,))
                    continue
                t = ans.strip()
                want = default if t == "" else bool(re.match(pat, t))
                sh.count("confirmations")
                if got is not want:
                    sh.violate("confirmation", case, "answered %r, expected %r" % (got, want))
                if st.reads != 1:
                    sh.violate("reads", case, "confirmation consumed %d lines" % st.reads)


def non_interactive(sh, lab, rng, n):
    for i in range(n):
        kind = i % 3
        if kind == 0:
            C = rng.choice(LISTS)
            d = rng.choice([None, 0, 1, "1", "0", " 0 , 1 ", "0,1", C[0]])
            q = lab.ChoiceQuestion(QTEXT, list(C), d)
            q.set_multi_select(rng.random() < 0.3 or (isinstance(d, str) and "," in d))
            q.set_max_attempts(rng.choice(LIMITS))
        elif kind == 1:
            d = rng.choice([True, False])
            q = lab.ConfirmationQuestion(QTEXT, d)
        else:
            d = rng.choice([None, "dflt", 7])
            q = lab.Question(QTEXT, d)
        io, st, out, err = lab.io(["a\n", "0\n", "y\n"])
        io.set_interactive(False)
        case = {"kind": "non-interactive", "question": type(q).__name__, "default": d}
        sh.case(("ni", kind, repr(d), i % 7), True)
        try:
            got = q.ask(io)
        except Exception as e:
            sh.violate("non-interactive", case, "raised %r" % (e,))
            continue
        sh.count("non_interactive")
        if got is not d and not (type(got) is type(d) and got == d):
            sh.violate("non-interactive", case, "returned %r, the default given to the question is %r" % (got, d))
        if st.reads or st.char_reads or out.fetch() or err.fetch():
            sh.violate("non-interactive", case, "reads=%d bytes out=%r err=%r" % (st.reads, out.fetch()[:30], err.fetch()[:30]))


def reask(sh, lab, rng, n):
    """One question object asked several times: each ask behaves as a first ask of a new question does (answer or
    failure, lines consumed, everything printed)."""
    cf = configs()

    def ask(q, script):
        io, st, out, err = lab.io([x + "\n" for x in script])
        try:
            res = ("ret", q.ask(io))
        except ReadBudgetExceeded:
            res = ("budget",)
        except Exception as e:
            res = ("exc", type(e).__name__, str(e))
        return res, st.reads, out.fetch(), err.fetch()

    def make(cfg, kind):
        ci, multi, default, limit = cfg
        if kind == "choice":
            q = lab.ChoiceQuestion(QTEXT, list(LISTS[ci]), default)
            q.set_multi_select(multi)
        elif kind == "confirm":
            q = lab.ConfirmationQuestion(QTEXT, bool(default))
        else:
            q = lab.Question(QTEXT, None if default is None else "dflt")
            q.set_validator(int)
        q.set_max_attempts(limit)
        return q

    for i in range(n):
        cfg = cf[rng.randrange(len(cf))]
        kind = rng.choice(["choice", "choice", "choice", "confirm", "validated"])
        scripts = [tuple(rng.choice(ANS) for _ in range(rng.randint(0, 3))) for _ in range(rng.randint(2, 3))]
        q = make(cfg, kind)
        record = {"kind": "re-ask", "question": kind, "choices": LISTS[cfg[0]], "multi": cfg[1], "default": cfg[2], "limit": cfg[3], "scripts": [list(x) for x in scripts]}
        sh.case(("re-ask", kind, cfg, tuple(scripts)), True)
        for k, script in enumerate(scripts):
            got = ask(q, script)
            want = ask(make(cfg, kind), script)
            sh.count("re_asks")
            if got != want:
                which = [nm for nm, a, b in zip(("result", "reads", "stdout", "stderr"), got, want) if a != b]
                sh.violate("re-ask", record, "ask #%d %r on the question object used before differs from a new question in %s: %r vs %r" % (
                    k, list(script), ",".join(which), [a for a, b in zip(got, want) if a != b][0], [b for a, b in zip(got, want) if a != b][0]))
                break


def plan(tier, seed):
    env = {"PATH": "/nonexistent-verif-path"}
    cf = configs()
    if tier == "quick":
        specs = [{"part": "enum", "maxlen": 2, "slice": [i, 6], "_env": env} for i in range(6)]
        specs += [{"part": "random", "n": 3000, "lo": 3, "hi": 4, "_env": env} for _ in range(2)]
        specs += [{"part": "misc", "_env": env}]
        return specs
    specs = [{"part": "enum", "maxlen": 3, "slice": [i, 14], "_env": env} for i in range(14)]
    specs += [{"part": "random", "n": 20000, "lo": 4, "hi": 4, "_env": env} for _ in range(15)]
    specs += [{"part": "misc", "_env": env}]
    return specs


def run_refill(sh, lab):
    """One I/O object for several dialogues (an interactive session, a test-suite): a question that gave up at the end
    of the input does not stop later questions from reading input that was supplied afterwards."""
    from clikit.io import BufferedIO

    for refill in ("set_input", "append_input"):
        for kind in ("choice", "confirmation", "question"):
            for first_script in ("", "zz\n", "\n"):
                io = BufferedIO()
                io.set_input(first_script)
                rec = {"kind": "refill", "question": kind, "first_input": first_script, "refill": refill}
                sh.case(("refill", refill, kind, first_script), True)

                def make():
                    if kind == "choice":
                        q = lab.ChoiceQuestion("Pick", ["a", "b", "c"])
                        q.set_max_attempts(2)
                        return q, "1\n", "b"
                    if kind == "confirmation":
                        return lab.ConfirmationQuestion("Sure?", False), "yes\n", True
                    return lab.Question("Name?"), "bob\n", "bob"

                q, typed, want = make()
                try:
                    first = ("ret", q.ask(io))
                except RuntimeError as e:
                    first = ("aborted", str(e))
                except Exception as e:
                    first = ("exc", repr(e))
                getattr(io, refill)(typed)
                q2, _, _ = make()
                try:
                    second = ("ret", q2.ask(io))
                except Exception as e:
                    second = ("exc", type(e).__name__, str(e))
                sh.count("refill_dialogues")
                if second != ("ret", want):
                    sh.violate("answer", rec, "after a first dialogue ending in %r, %s(%r) was given and the next question returned %r, expected %r" % (first, refill, typed, second, want))


def run(sh, spec):
    if os.environ.get("PATH") != spec["_env"]["PATH"]:
        sh.inconclusive_because("PATH not isolated")
        return
    repo.activate()
    lab = Lab()
    cf = configs()
    if spec["part"] == "enum":
        i, n = spec["slice"]
        if i == 0:
            run_refill(sh, lab)
        for k, cfg in enumerate(cf):
            if k % n != i:
                continue
            for ln in range(0, spec["maxlen"] + 1):
                for script in itertools.product(ANS, repeat=ln):
                    run_dialogue(sh, lab, cfg, script)
                    if ln and script[-1] != "" and ln <= 2:
                        run_dialogue(sh, lab, cfg, script, last_newline=False)
        sh.sample({"kind": "choice", "choices": LISTS[3], "multi": False, "default": None, "limit": 2, "script": ["dup", "2"]})
    elif spec["part"] == "random":
        rng = sh.rng
        for _ in range(spec["n"]):
            if STOP[0] >= 3:
                sh.note("stopped_early", "three dialogues exceeded the CPU budget; the rest of this shard's random scripts were not run")
                break
            cfg = cf[rng.randrange(len(cf))]
            script = tuple(rng.choice(ANS) if rng.random() < 0.85 else rng.choice(LONG_ANS) for _ in range(rng.randint(spec["lo"], spec["hi"])))
            run_dialogue(sh, lab, cfg, script, rng.random() < 0.8)
    else:
        interchange(sh, lab)
        confirmations(sh, lab)
        non_interactive(sh, lab, sh.rng, 400)
        reask(sh, lab, sh.rng, 1500 if sh.tier == "quick" else 40000)
        sh.sample({"kind": "confirm", "pattern": PATTERNS[0], "answer": " y ", "default": False})


def finalize(tier, merged):
    c = merged["counters"]
    inc = []
    for k in ("dialogues", "answered", "exhausted", "ended_at_eof", "reads_observed", "errors_observed", "confirmations", "non_interactive", "interchange_pairs", "re_asks"):
        if not c.get(k):
            inc.append("counter %s is zero" % k)
    return {"inconclusive": inc}


def replay(sh, case):
    if os.environ.get("PATH", "").find("nonexistent") < 0:
        os.environ["PATH"] = "/nonexistent-verif-path"
    repo.activate()
    lab = Lab()
    if case["kind"] == "choice":
        ci = LISTS.index(case["choices"])
        run_dialogue(sh, lab, (ci, case["multi"], case["default"], case["limit"]), tuple(case["script"]), case.get("last_newline", True))
    elif case["kind"] == "re-ask":
        sh.inconclusive_because("re-ask replay: rerun the check with the same VERIF_SEED (the record lists the scripts)")
    elif case["kind"] == "confirm":
        confirmations(sh, lab)
    elif case["kind"] == "interchange":
        interchange(sh, lab)
    else:
        non_interactive(sh, lab, sh.rng, 200)
