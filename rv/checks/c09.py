"""C09 - global switches act the same wherever they appear and whatever command runs.

Boundary recorders: a tap around the configured io_factory (settings of the IO
built for the run), recording handlers, recording streams, a scripted input
stream that counts reads.  Base line = a valid line for a generated tree on
DefaultApplicationConfig; variant = the base line with switches inserted.
"""
import os
import re

from rv import repo
from rv.gen import tree as T
from rv.gen.choose import RandomChooser

PROPERTY = "C09"
LEVEL = "exploration"
EXHAUSTIVE = False
RULE = (
    "generated command trees on DefaultApplicationConfig; base lines = every command path whose leaf takes a multi-valued rest "
    "argument (so any positional tail parses), spelled with names or aliases; variants = subsets of the seven switches (quiet, "
    "-v/-vv/-vvv, --ansi, --no-ansi, no-interaction, help, version; long and short spellings; singletons, pairs, larger "
    "sets; all 2^7 minus contradictory pairs in thorough) inserted at every kind of position before '--' (before the path, "
    "inside it, right after it, among the arguments, at the end) in both orders, x handler behaviour {writes styled text at 4 "
    "levels to both streams (directly, in a second kind through io.section(), in a third through the raw line writers), asks a confirmation (and, when the I/O is not interactive, ten more questions of every kind - plain, validated, choice by index / "
    "name / integer, multi-select, confirmation - each of which must return the very default it was given), raises} x streams claiming / denying ANSI. Control: the same tokens after "
    "'--', also with a switch as the last token right before '--'. Sequences: four runs with different switches on ONE application object, each compared with the same line on a "
    "fresh application (a switch governs its own run only). Clauses per switch as in the statement; handler-level clauses only when the base command's handler still runs. "
    "Also: is_verbose / is_very_verbose / is_debug of the I/O and both outputs follow the selected level. "
    "non-trivial = variant with >= 1 switch not at the end; distinct by (switch set, positions class, spelling, handler kind, "
    "stream kind, tree shape)."
)
BOUND = {"quick": "30 trees x <= 4 base lines x ~45 variants", "thorough": "3500 trees x <= 6 base lines x ~120 variants"}
ASSUMPTIONS = [
    "--ansi with --no-ansi, help with version, and two verbosity switches are not combined in one variant (precedence is not stated)",
    "help and version clauses are asserted for placements after the full command path (a switch inside the path legitimately cuts it, C03)",
    "'-v' directly followed by a positional takes it as its value: only the I/O-level clauses are asserted there",
]

SGR = re.compile("\x1b\\[[0-9;]*m")
SW = {
    "quiet": ["-q", "--quiet"], "v1": ["-v"], "v2": ["-vv"], "v3": ["-vvv"], "noansi": ["--no-ansi"], "ansi": ["--ansi"],
    "nointer": ["-n", "--no-interaction"], "help": ["-h", "--help"], "version": ["-V", "--version"],
}
EXCLUSIVE = [("ansi", "noansi"), ("help", "version"), ("v1", "v2"), ("v1", "v3"), ("v2", "v3")]
VERB = {"v1": 1, "v2": 2, "v3": 4}


class Env(object):
    def __init__(self):
        self.api = T.load_api()
        from clikit.api.io import InputStream
        from clikit.api.io.flags import DEBUG, VERBOSE, VERY_VERBOSE
        from clikit.args import ArgvArgs
        from clikit.formatter import AnsiFormatter, PlainFormatter
        from clikit.io import BufferedIO
        from clikit.io.output_stream import BufferedOutputStream
        from clikit.ui.components import ConfirmationQuestion
        from clikit.ui.help import CommandHelp
        from clikit.ui.rectangle import Rectangle

        self.ArgvArgs, self.AnsiFormatter, self.PlainFormatter, self.BufferedIO = ArgvArgs, AnsiFormatter, PlainFormatter, BufferedIO
        self.ConfirmationQuestion, self.CommandHelp, self.Rectangle = ConfirmationQuestion, CommandHelp, Rectangle
        self.flags = (VERBOSE, VERY_VERBOSE, DEBUG)

        class RecStream(BufferedOutputStream):
            def __init__(self, ansi=False):
                BufferedOutputStream.__init__(self)
                self._ansi = ansi

            def supports_ansi(self):
                return self._ansi

        class Script(InputStream):
            def __init__(self, lines):
                self.lines = list(lines)
                self.reads = 0

            def read_line(self, length=None):
                self.reads += 1
                return self.lines.pop(0) if self.lines else ""

            def read(self, n):
                self.reads += 1
                return ""

            def close(self):
                pass

            def is_closed(self):
                return False

        self.RecStream, self.Script = RecStream, Script


def more_questions(ChoiceQuestion, Question, ConfirmationQuestion):
    colours = ["red", "green", "blue"]
    out = [(Question("name?", "dflt"), "dflt"), (Question("nothing?"), None), (Question("number?", "5"), "5"), (ConfirmationQuestion("sure?", True), True),
           (ChoiceQuestion("pick", colours, "1"), "1"), (ChoiceQuestion("pick", colours, 2), 2), (ChoiceQuestion("pick", colours, "green"), "green")]
    q = ChoiceQuestion("pick some", colours, "0,2")
    q.set_multi_select(True)
    out.append((q, "0,2"))
    q = ChoiceQuestion("pick some", colours, " 0 , 1 ")
    q.set_multi_select(True)
    out.append((q, " 0 , 1 "))
    q = Question("validated?", "7")
    q.set_validator(int)
    out.append((q, "7"))
    return out


def behaviour_for(env, kind, answers):
    V, VV, D = env.flags

    def behaviour(command, args, io):
        if kind == "write":
            io.write_line("<info>N-out</info>")
            io.write_line("V-out", V)
            io.write_line("VV-out", VV)
            io.write_line("D-out", D)
            io.error_line("<error>N-err</error>")
            io.error_line("V-err", V)
            io.error_line("VV-err", VV)
            io.error_line("D-err", D)
            return 0
        if kind == "write-raw":
            # the same messages through the raw (unformatted) line writers
            io.write_line_raw("N-out")
            io.write_line_raw("V-out", V)
            io.write_line_raw("VV-out", VV)
            io.write_line_raw("D-out", D)
            io.error_line_raw("N-err")
            io.error_line_raw("V-err", V)
            io.error_line_raw("VV-err", VV)
            io.error_line_raw("D-err", D)
            io.write_raw("", V)
            io.error_raw("", D)
            return 0
        if kind == "section":
            # the same messages through sections of the two outputs (as applications with live-updating output do)
            sec = io.section()
            sec.write_line("<info>N-out</info>")
            sec.write_line("V-out", V)
            sec.write_line("VV-out", VV)
            sec.write_line("D-out", D)
            sec.error_line("<error>N-err</error>")
            sec.error_line("V-err", V)
            sec.error_line("VV-err", VV)
            sec.error_line("D-err", D)
            return 0
        if kind == "ask":
            answers.append(env.ConfirmationQuestion("proceed?", False).ask(io))
            if not io.is_interactive():
                # every kind of question returns its default - the very object it was given
                from clikit.ui.components import ChoiceQuestion, Question

                for q, d in more_questions(ChoiceQuestion, Question, env.ConfirmationQuestion):
                    got = q.ask(io)
                    if got is not d and not (type(got) is type(d) and got == d):
                        answers.append(("not-the-default", type(q).__name__, repr(d), repr(got)))
                    else:
                        env.default_answers = getattr(env, "default_answers", 0) + 1
            return 0
        raise ValueError("handler failed on purpose")
    return behaviour


def execute(env, tree, tokens, kind, ansi_streams, reuse=None):
    """ansi_streams: bool (both streams) or (stdout claims ANSI, stderr claims ANSI); reuse: a dict that keeps the
    application object between calls"""
    if not isinstance(ansi_streams, (tuple, list)):
        ansi_streams = (ansi_streams, ansi_streams)
    if reuse is not None and "app" in reuse:
        app, log, taps, answers = reuse["app"], reuse["log"], reuse["taps"], reuse["answers"]
        del taps[:], answers[:], log.calls[:]
        out, err = env.RecStream(ansi_streams[0]), env.RecStream(ansi_streams[1])
        inp = env.Script(["y\n", "y\n"])
        try:
            status = app.run(env.ArgvArgs(["prog"] + list(tokens)), inp, out, err)
        except BaseException as e:
            status = "raised %r" % (e,)
        return dict(status=status, out=out.fetch(), err=err.fetch(), tap=taps[0] if taps else None, calls=[c for c in log.calls], answers=list(answers), reads=inp.reads), app
    log = T.HandlerLog()
    answers = []
    log.behaviour = behaviour_for(env, kind, answers)
    taps = []

    def tweak(cfg):
        orig = cfg.io_factory

        def tap(app, args, i, o, e):
            io = orig(app, args, i, o, e)
            taps.append(dict(verbosity=io.verbosity, quiet=io.is_quiet(), interactive=io.is_interactive(), ansi_out=io.output.supports_ansi(),
                             ansi_err=io.error_output.supports_ansi(), quiet_err=io.error_output.is_quiet(), verbosity_err=io.error_output.verbosity,
                             levels=[(o.is_verbose(), o.is_very_verbose(), o.is_debug()) for o in (io, io.output, io.error_output)]))
            return io
        cfg.set_io_factory(tap)

    app, cfg = T.build_app(tree, env.api, log, default_config=True, name="my-app", version="1.2.3", tweak=tweak)
    if reuse is not None:
        reuse.update(app=app, log=log, taps=taps, answers=answers)
    out, err = env.RecStream(ansi_streams[0]), env.RecStream(ansi_streams[1])
    inp = env.Script(["y\n", "y\n"])
    try:
        status = app.run(env.ArgvArgs(["prog"] + list(tokens)), inp, out, err)
    except BaseException as e:
        status = "raised %r" % (e,)
    return dict(status=status, out=out.fetch(), err=err.fetch(), tap=taps[0] if taps else None, calls=[c for c in log.calls], answers=list(answers), reads=inp.reads), app


def base_lines(tree, rng, limit):
    out = []
    for path, n in T.walk(tree):
        if n["kind"] == "anon" or any(x["kind"] == "anon" for x in path):
            continue
        if n["subs"] or T.accepts_extra(path) is not None:
            continue
        names = [rng.choice([x["name"]] + x["aliases"]) for x in path]
        own = []
        for o in n["opts"]:
            if rng.random() < 0.6:
                own += ["--" + o["long"]] if o["mode"] == "flag" else ["--%s=ov" % o["long"]]
        if own and rng.random() < 0.5:
            # the command's own options between the path and its arguments
            out.append((path, names, names + own + T.positional_fill(path) + ["r1"]))
        else:
            out.append((path, names, names + T.positional_fill(path) + ["r1"] + own))
    rng.shuffle(out)
    return out[:limit]


def expected_lines(prefix, verbosity):
    lines = ["N-" + prefix]
    if verbosity >= 1:
        lines.append("V-" + prefix)
    if verbosity >= 2:
        lines.append("VV-" + prefix)
    if verbosity >= 4:
        lines.append("D-" + prefix)
    return lines


def judge_variant(sh, env, tree, path, names, base, switches, tokens, positions, kind, ansi_streams, record, base_result):
    r, app = execute(env, tree, tokens, kind, ansi_streams)
    sh.count("variant_runs")
    full_name = " ".join(x["name"] for x in path)
    npath = len(names)
    if not isinstance(r["status"], int):
        sh.violate("run-raises", record, "run %s" % r["status"])
        return
    tap = r["tap"]
    if tap is None:
        sh.inconclusive_because("the io_factory tap was never called: I/O settings unobservable")
        return
    veats = any(t == "-v" and i + 1 < len(tokens) and not tokens[i + 1].startswith("-") for i, t in enumerate(tokens))
    names_set = set(switches)
    # ---- I/O level (always) -----------------------------------------------------------------------
    if "quiet" in names_set:
        if r["out"] or r["err"]:
            sh.violate("quiet", record, "quiet run wrote out=%r err=%r" % (r["out"][:60], r["err"][:60]))
        if not tap["quiet"] or not tap["quiet_err"]:
            sh.violate("quiet", record, "I/O not quiet: %r" % (tap,))
    for v, lvl in VERB.items():
        if v in names_set and (tap["verbosity"] != lvl or tap["verbosity_err"] != lvl):
            sh.violate("verbosity", record, "%s given, I/O verbosity %r/%r" % (v, tap["verbosity"], tap["verbosity_err"]))
    # what a handler asks (is_verbose / is_very_verbose / is_debug on the I/O and on both outputs) follows the selected level
    want_levels = (tap["verbosity"] >= 1, tap["verbosity"] >= 2, tap["verbosity"] >= 4)
    if any(tuple(l) != want_levels for l in tap["levels"]):
        sh.violate("verbosity", record, "at verbosity %r the predicates (is_verbose, is_very_verbose, is_debug) of I/O, output, error output answer %r" % (tap["verbosity"], tap["levels"]))
    if not (names_set & set(VERB)) and tap["verbosity"] != 0:
        sh.violate("verbosity", record, "no verbosity switch given, I/O verbosity %r" % tap["verbosity"])
    if "noansi" in names_set:
        if "\x1b" in r["out"] or "\x1b" in r["err"]:
            sh.violate("no-ansi", record, "escape sequence on a --no-ansi run: %r" % (r["out"] + r["err"])[:80])
        if tap["ansi_out"] or tap["ansi_err"]:
            sh.violate("no-ansi", record, "outputs still decorated: %r" % (tap,))
    if "ansi" in names_set and not (tap["ansi_out"] and tap["ansi_err"]):
        sh.violate("ansi", record, "--ansi given but outputs not decorated (streams claim %r): %r" % (ansi_streams, tap))
    if not (names_set & {"ansi", "noansi"}) and (tap["ansi_out"], tap["ansi_err"]) != tuple(ansi_streams):
        sh.violate("ansi", record, "no ANSI switch: decoration %r should follow the streams' claims %r" % ((tap["ansi_out"], tap["ansi_err"]), ansi_streams))
    if "nointer" in names_set:
        if tap["interactive"]:
            sh.violate("no-interaction", record, "I/O still interactive")
        if r["reads"]:
            sh.violate("no-interaction", record, "%d line(s) read from the input" % r["reads"])
        if any(a is not False for a in r["answers"]):
            sh.violate("no-interaction", record, "question answered %r instead of its default" % (r["answers"],))
    elif not (names_set & {"help", "version"}):
        if not tap["interactive"]:
            sh.violate("no-interaction", record, "I/O not interactive although no switch asked for it")
    # ---- handler level (only if the base command's handler still ran) -----------------------------------
    ran = [c for c in r["calls"]]
    same_handler = len(ran) == 1 and ran[0]["command"] == full_name
    if names_set & {"help", "version"}:
        after_path = all(p >= npath for s, p in positions if s in ("help", "version"))
        if ran and after_path and not veats:
            sh.violate("handler-ran", record, "handler %r ran although help/version was requested" % ran[0]["command"])
    if same_handler and not (names_set & {"help", "version"}):
        # the switches do not change what the handler's run amounts to
        want_status = 1 if kind == "raise" else 0
        if r["status"] != want_status:
            sh.violate("status", record, "the handler ran, but the run returned %r instead of %d: out %r err %r" % (r["status"], want_status, r["out"][-120:], r["err"][-160:]))
        if kind == "ask" and "nointer" in names_set and r["answers"][:1] != [False]:
            sh.violate("no-interaction", record, "the confirmation (default False) answered %r under the no-interaction switch" % (r["answers"][:1],))
    if same_handler and not (names_set & {"quiet"}):
        sh.count("handler_level_checks")
        verbosity = tap["verbosity"]
        if kind in ("write", "section", "write-raw"):
            o = SGR.sub("", r["out"]).split("\n")
            e = SGR.sub("", r["err"]).split("\n")
            if [l for l in o if l] != expected_lines("out", verbosity) or [l for l in e if l] != expected_lines("err", verbosity):
                sh.violate("verbosity-messages", record, "verbosity %d: out %r err %r" % (verbosity, o, e))
            for which, text, claims in ((("standard", r["out"], ansi_streams[0]), ("error", r["err"], ansi_streams[1])) if kind == "write" else ()):
                decorated = ("ansi" in names_set) or (claims and "noansi" not in names_set)
                if decorated and "\x1b" not in text:
                    sh.violate("ansi", record, "decoration on but styled handler text arrived without SGR on the %s stream: %r" % (which, text[:60]))
                if not decorated and "\x1b" in text:
                    sh.violate("no-ansi", record, "undecorated %s stream received an escape sequence" % which)
        if kind == "ask" and "nointer" not in names_set:
            if r["answers"] != [True] or r["reads"] != 1:
                sh.violate("interaction", record, "interactive question answered %r after %d read(s)" % (r["answers"], r["reads"]))
        if ran[0]["verbosity"] != verbosity or ran[0]["quiet"] != tap["quiet"] or ran[0]["interactive"] != tap["interactive"]:
            sh.violate("handler-io", record, "handler saw %r, the factory built %r" % (ran[0], tap))
    # ---- help / version after the full path ------------------------------------------------------------------
    for sw in ("help", "version"):
        if sw in names_set and all(p >= npath for s, p in positions if s == sw) and not veats:
            other_cut = any(p < npath for s, p in positions)
            if other_cut:
                continue
            if r["status"] != 0:
                sh.violate(sw, record, "%s requested after the full path: status %r, out %r err %r" % (sw, r["status"], r["out"][:80], r["err"][:120]))
                continue
            if "quiet" in names_set:
                continue
            sh.count(sw + "_checks")
            if sw == "version":
                vtext = SGR.sub("", r["out"])
                if "My App" not in vtext or "1.2.3" not in vtext or len(vtext.strip().split("\n")) != 1:
                    sh.violate("version", record, "version output %r" % r["out"][:80])
            else:
                decorated = ("ansi" in names_set) or (ansi_streams[0] and "noansi" not in names_set)
                targets = [path] + [path + (s,) for s in path[-1]["subs"] if s["kind"] in ("default", "anon")]
                pages = []
                for tp in targets:
                    io = env.BufferedIO("", env.AnsiFormatter(forced=True) if decorated else env.PlainFormatter())
                    io.set_terminal_dimensions(env.Rectangle(int(os.environ["COLUMNS"]), int(os.environ["LINES"])))
                    env.CommandHelp(T.find_command(app, [x["name"] for x in tp])).render(io)
                    pages.append(io.fetch_output())
                if r["out"] not in pages:
                    sh.violate("help", record, "help output is not the command's help page: %r" % r["out"][:100])


def judge_control(sh, env, tree, path, names, base, switches, kind, ansi_streams, record, base_result):
    tokens = base + ["--"] + switches
    r, app = execute(env, tree, tokens, kind, ansi_streams)
    sh.count("control_runs")
    b = base_result
    same = (r["status"] == b["status"] and r["out"] == b["out"] and r["err"] == b["err"] and r["tap"] == b["tap"] and len(r["calls"]) == len(b["calls"])
            and [c["options"] for c in r["calls"]] == [c["options"] for c in b["calls"]] and r["answers"] == b["answers"] and r["reads"] == b["reads"])
    if not same:
        sh.violate("after-double-dash", record, "switch tokens after '--' changed the run: status %r/%r tap %r/%r out %r/%r" % (
            r["status"], b["status"], r["tap"], b["tap"], r["out"][:60], b["out"][:60]))


def same_run(r, b):
    return (r["status"] == b["status"] and r["out"] == b["out"] and r["err"] == b["err"] and r["tap"] == b["tap"] and len(r["calls"]) == len(b["calls"])
            and [c["options"] for c in r["calls"]] == [c["options"] for c in b["calls"]] and r["answers"] == b["answers"] and r["reads"] == b["reads"])


def judge_control_after_switch(sh, env, tree, base, last, after, kind, ansi_streams, record):
    """A switch as the very last token before '--': the separator is not its value, and what follows still has no effect."""
    b, _ = execute(env, tree, base + [last], kind, ansi_streams)
    r, _ = execute(env, tree, base + [last, "--"] + after, kind, ansi_streams)
    sh.count("control_runs")
    if not same_run(r, b):
        sh.violate("after-double-dash", record, "with %r right before '--', the tokens after '--' changed the run: status %r/%r tap %r/%r out %r/%r" % (
            last, r["status"], b["status"], r["tap"], b["tap"], r["out"][:60], b["out"][:60]))


def switch_sequences(sh, env, tree, rng, shape):
    """One application object, several runs with different switches: each run is governed by its own switches only
    (compared with the same line on a fresh application)."""
    lines = base_lines(tree, rng, 1)
    if not lines:
        return
    path, names, base = lines[0]
    pool = [["-vvv"], ["-v"], [], ["-q"], ["-vv"], ["--no-ansi"], ["--ansi"], ["-n"], ["--", "-vvv", "-q"], ["-vvv", "-n"], ["-q", "-vvv"]]
    for kind in ("write", "ask", "raise"):
        seq = [rng.choice(pool) for _ in range(4)]
        if kind == "write":
            seq[0] = ["-vvv"]
        ansi_streams = (rng.random() < 0.5, rng.random() < 0.5)
        keep = {}
        for i, sw in enumerate(seq):
            tokens = base + sw
            r, _ = execute(env, tree, tokens, kind, ansi_streams, reuse=keep)
            f, _ = execute(env, tree, tokens, kind, ansi_streams)
            sh.count("sequence_runs")
            record = {"tree": tree, "kind": "switch-sequence", "handler": kind, "lines": [base + x for x in seq[:i + 1]], "ansi_streams": ansi_streams}
            sh.case(("switch-sequence", kind, tuple(tuple(x) for x in seq[:i + 1]), shape), i > 0)
            if not same_run(r, f):
                sh.violate("switch-sequence", record, "run #%d %r on the application used for the earlier lines: status %r tap %r out %r err %r; on a fresh application: status %r tap %r out %r err %r" % (
                    i, tokens, r["status"], r["tap"], r["out"][:50], r["err"][:50], f["status"], f["tap"], f["out"][:50], f["err"][:50]))
                break


def subsets(rng, tier):
    names = sorted(SW)
    out = [[n] for n in names]
    import itertools

    pairs = [list(p) for p in itertools.combinations(names, 2)]
    if tier == "quick":
        out += rng.sample(pairs, 14)
        for _ in range(6):
            out.append(rng.sample(names, rng.randint(3, 4)))
    else:
        out += pairs
        for r in (3, 4, 5):
            combos = list(itertools.combinations(names, r))
            out += [list(c) for c in rng.sample(combos, 14)]
    ok = []
    for s in out:
        if any(a in s and b in s for a, b in EXCLUSIVE):
            continue
        ok.append(s)
    return ok


def help_on_every_path(sh, env, tree, rng, shape):
    for path, n in T.walk(tree):
        if n["kind"] == "anon" or any(x["kind"] == "anon" for x in path):
            continue
        names = [rng.choice([x["name"]] + x["aliases"]) for x in path]
        sw = rng.choice(SW["help"])
        extra = rng.choice([[], ["-q"][:0], ["--no-ansi"], ["-v"]])
        tokens = names + [sw] + extra if rng.random() < 0.5 else names + extra + [sw]
        record = {"tree": tree, "tokens": tokens, "kind": "help-on-path"}
        sh.case(("help-path", tuple(x["kind"] for x in path), bool(n["subs"]), sw, tuple(extra), shape), True)
        r, app = execute(env, tree, tokens, "write", (False, False))
        sh.count("help_path_runs")
        if r["status"] != 0 or r["calls"]:
            sh.violate("help", record, "'%s' gave status %r with %d handler call(s): %r" % (" ".join(tokens), r["status"], len(r["calls"]), (r["out"] + r["err"])[:160]))
            continue
        targets = [path] + [path + (s,) for s in n["subs"] if s["kind"] in ("default", "anon")]
        pages = []
        for tp in targets:
            io = env.BufferedIO("", env.PlainFormatter())
            io.set_terminal_dimensions(env.Rectangle(int(os.environ["COLUMNS"]), int(os.environ["LINES"])))
            env.CommandHelp(T.find_command(app, [x["name"] for x in tp])).render(io)
            pages.append(io.fetch_output())
        if r["out"] not in pages:
            sh.violate("help", record, "'%s' did not print that command's help page: %r" % (" ".join(tokens), r["out"][:100]))


def ansi_switches_after_each_other(sh, env, tree, rng, shape):
    """The no-ANSI switch removes every escape sequence also when an earlier run of the process was decorated
    (error reports at debug verbosity included), and vice versa."""
    lines = base_lines(tree, rng, 1)
    if not lines:
        return
    path, names, base = lines[0]
    for first, second in ((["--ansi", "-vvv"], ["--no-ansi", "-vvv"]), (["--no-ansi", "-vvv"], ["--ansi", "-vvv"])):
        results = []
        for sw in (first, second):
            r, _ = execute(env, tree, base + sw, "raise", (True, True))
            results.append(r)
        record = {"tree": tree, "kind": "ansi-sequence", "first": base + first, "second": base + second}
        sh.case(("ansi-sequence", tuple(first), shape), True)
        sh.count("ansi_sequence_runs")
        plain = results[0] if "--no-ansi" in first else results[1]
        deco = results[1] if "--no-ansi" in first else results[0]
        if "\x1b" in plain["out"] + plain["err"]:
            sh.violate("no-ansi", record, "the --no-ansi run (%s of the two) emitted an escape sequence: %r" % ("first" if plain is results[0] else "second",
                       [l for l in (plain["out"] + plain["err"]).split("\n") if "\x1b" in l][:2]))
        # the decorated error report styles every code line of the snippets
        def undecorated_code_lines(text):
            return [l for l in text.split("\n") if ("\u2502" in l or "|" in l) and "\x1b" not in l and l.strip()]
        bad = undecorated_code_lines(deco["out"] + deco["err"])
        if bad and "\x1b" in deco["out"] + deco["err"]:
            sh.violate("ansi", record, "the --ansi run printed undecorated snippet lines: %r" % bad[:2])


def run_tree(sh, env, tree, rng, tier):
    os.environ["COLUMNS"] = "120"
    os.environ["LINES"] = "40"
    shape = T.tree_shape(tree)
    help_on_every_path(sh, env, tree, rng, shape)
    ansi_switches_after_each_other(sh, env, tree, rng, shape)
    switch_sequences(sh, env, tree, rng, shape)
    for path, names, base in base_lines(tree, rng, 4 if tier == "quick" else 6):
        for kind in ("write", "ask", "raise", "section", "write-raw"):
            ansi_streams = (rng.random() < 0.5, rng.random() < 0.5)
            b, _ = execute(env, tree, base, kind, ansi_streams)
            want_status = 1 if kind == "raise" else 0
            if b["status"] != want_status or len(b["calls"]) != 1:
                sh.violate("base-line", {"tree": tree, "tokens": base, "handler": kind}, "the valid base line gave status %r with %d handler calls: %r" % (
                    b["status"], len(b["calls"]), (b["out"] + b["err"])[:200]))
                continue
            sets = subsets(rng, tier)
            if kind != "write":
                sets = rng.sample(sets, max(6, len(sets) // 4))
            if kind in ("section", "write-raw"):
                sets = [x for x in sets if "quiet" in x or set(x) & set(VERB)] + [["quiet"], ["v2"]]
            for sset in sets:
                order = list(sset)
                rng.shuffle(order)
                spelled = [(s, rng.choice(SW[s])) for s in order]
                npos = len(base)
                pclass = rng.choice(["before", "inside", "after-path", "among-args", "end", "random"])
                positions = []
                tokens = list(base)
                inserted = []
                for s, tok in spelled:
                    if pclass == "before":
                        p = 0
                    elif pclass == "inside":
                        p = rng.randint(0, len(names))
                    elif pclass == "after-path":
                        p = len(names)
                    elif pclass == "among-args":
                        p = rng.randint(len(names), npos)
                    elif pclass == "end":
                        p = npos
                    else:
                        p = rng.randint(0, npos)
                    inserted.append((p, s, tok))
                # insert from the right so that positions refer to the base line
                toks = list(base)
                for p, s, tok in sorted(inserted, key=lambda x: -x[0]):
                    toks.insert(p, tok)
                positions = [(s, p) for p, s, tok in inserted]
                record = {"tree": tree, "base": base, "tokens": toks, "switches": [tok for _, tok in spelled], "handler": kind, "ansi_streams": ansi_streams}
                sh.case((tuple(sorted(sset)), pclass, tuple(tok for _, tok in spelled), kind, ansi_streams, shape), pclass != "end")
                judge_variant(sh, env, tree, path, names, base, sset, toks, positions, kind, ansi_streams, record, b)
                sh.tag("position_classes", pclass)
            # control: after '--'
            for sset in rng.sample(sets, min(5, len(sets))):
                toks = [rng.choice(SW[s]) for s in sset]
                record = {"tree": tree, "base": base, "after_dd": toks, "handler": kind, "ansi_streams": ansi_streams}
                sh.case(("control", tuple(sorted(sset)), kind, ansi_streams, shape), True)
                judge_control(sh, env, tree, path, names, base, toks, kind, ansi_streams, record, b)
                last = rng.choice(["-v", "--verbose", "-vv", "-q", "-n", "--no-ansi", "--ansi"])
                record = {"tree": tree, "base": base, "last_before_dd": last, "after_dd": toks, "handler": kind, "ansi_streams": ansi_streams}
                sh.case(("control-after-switch", last, tuple(sorted(sset)), kind, ansi_streams, shape), True)
                judge_control_after_switch(sh, env, tree, base, last, toks, kind, ansi_streams, record)


def plan(tier, seed):
    env = {"PATH": "/nonexistent-verif-path"}
    if tier == "quick":
        return [{"n": 8, "_env": env} for _ in range(4)]
    return [{"n": 220, "_env": env} for _ in range(16)]


def run(sh, spec):
    repo.activate()
    env = Env()
    ch = RandomChooser(sh.rng)
    done = 0
    tries = 0
    while done < spec["n"] and tries < spec["n"] * 20:
        tries += 1
        tree = T.gen_tree(ch, rich=False)
        if not base_lines(tree, sh.rng, 1):
            continue
        done += 1
        run_tree(sh, env, tree, sh.rng, sh.tier)
        sh.count("trees")
        if done == 1:
            sh.sample({"first_command": tree[0]["name"], "base_lines": [b for _, _, b in base_lines(tree, sh.rng, 3)]})
    sh.count("default_answers_observed", getattr(env, "default_answers", 0))


def finalize(tier, merged):
    c = merged["counters"]
    inc = []
    for k in ("variant_runs", "control_runs", "handler_level_checks", "help_checks", "version_checks", "help_path_runs", "ansi_sequence_runs", "sequence_runs", "default_answers_observed"):
        if not c.get(k):
            inc.append("counter %s is zero" % k)
    return {"inconclusive": inc}


def replay(sh, case):
    sh.inconclusive_because("C09 replay: rerun with the same VERIF_SEED (the record holds tree and tokens)")
