"""C02 - malformed command lines are rejected with the documented errors, and only those.

(a) containment: for every token soup x format, only the documented exception
    types escape (strict: cannot-parse, no-such-option, ValueError; lenient:
    ValueError only);
(b) agreement: whenever strict parsing returns, lenient returns the same maps;
(c) a valid line (C01 generator) with exactly one planted fault raises the
    documented error in strict mode and no parse error in lenient mode.
"""
import itertools

from rv import repo
from rv.gen import argline
from rv.gen.choose import RandomChooser

PROPERTY = "C02"
LEVEL = "exploration"
EXHAUSTIVE = {"quick": True, "thorough": True}
RULE = (
    "soup: every token sequence up to length L over a 32-token adversarial alphabet x 16 small formats x strict/lenient "
    "(exhaustive for L<=3 quick, L<=4 thorough; lengths 5-6 seeded samples in thorough); mutations: valid lines from the "
    "C01 generator with exactly one planted fault (unknown long/short option, value given to a flag, required value "
    "Also: every third soup line is parsed in both modes, in both orders, on ONE parser and ONE raw-args object and compared with fresh parsers; one-letter names behind two dashes count as unknown options. "
    "stripped, last required argument dropped, surplus positional, ill-typed value). Every fifth faulty line is also parsed through Command.parse(raw, mode) of a real application's command, mode in {None, False, True} x leniency configured {nowhere, on the command, on the application, on the application but switched off on the command, switched on / off after the command object was built}: the outcome must equal the parser's in the mode that is explicit if given, else the one the command's configuration reports. non-trivial = sequence with >=1 "
    "option-like token / any mutation; distinct by (format id, token tuple) / (format shape, fault kind, spelling pattern)."
)
BOUND = {
    "quick": "all sequences of length <= 3 over 32 tokens x 16 formats x 2 modes; 7 fault operators x 6000 generated lines",
    "thorough": "all sequences of length <= 4 over 32 tokens x 16 formats x 2 modes, 150000 sampled of length 5-6; 7 fault operators x 150000 generated lines",
}
ASSUMPTIONS = [
    "fault operators are applied only where exactly one fault results (unknown options at chunk boundaries, surplus positional not after a bare optional-value option, ...)",
    "in lenient mode ValueError from type conversion may still escape (the statement excludes only the two parse errors)",
]

ALPHABET = [
    "", "-", "--", "---", "--=", "-=", "--alpha", "--alpha=v", "--alpha=", "--zeta", "--zeta=v", "-a", "-av", "-z", "-zv",
    "-ab", "-az", "-a=v", "-1", "null", "w", "x y", "server", "srv", "5", "true", "--beta", "-b", "--beta=7", "-ba",
    "--a", "--a=v", "--b",  # one-letter names behind two dashes
    "--alph", "--alphb=1",  # unknown names at the same distance from several declared ones (see the last format)
]


def O(long, short, mode, type="string", nullable=False, default=None):
    return dict(long=long, short=short, mode=mode, type=type, nullable=nullable, default=default)


def A(name, kind, type="string", multi=False, nullable=False, default=None):
    return dict(name=name, kind=kind, type=type, nullable=nullable, multi=multi, default=default)


def C(name, *aliases):
    return dict(name=name, aliases=list(aliases))


FORMATS = [
    dict(opts=[], args=[], cmds=[], base=False),
    dict(opts=[O("alpha", "a", "flag"), O("beta", "b", "flag")], args=[], cmds=[], base=False),
    dict(opts=[O("alpha", "a", "req")], args=[A("one", "req")], cmds=[], base=False),
    dict(opts=[O("alpha", "a", "opt", default="dflt")], args=[A("one", "opt", multi=True)], cmds=[], base=False),
    dict(opts=[O("alpha", "a", "multi"), O("beta", "b", "flag")], args=[A("one", "req"), A("two", "opt")], cmds=[], base=False),
    dict(opts=[O("alpha", "a", "opt", "integer"), O("beta", "b", "req", "float")], args=[], cmds=[], base=False),
    dict(opts=[O("alpha", "a", "opt", "integer", True), O("beta", "b", "flag")], args=[A("one", "opt", "integer")], cmds=[], base=False),
    dict(opts=[O("alpha", "a", "req", "boolean")], args=[A("one", "req")], cmds=[C("server", "srv")], base=False),
    dict(opts=[O("alpha", "a", "flag"), O("beta", "b", "req", "integer")], args=[A("one", "req"), A("two", "opt")], cmds=[], base=True),
    dict(opts=[O("alpha", "a", "multi", "integer")], args=[A("one", "req", multi=True)], cmds=[C("server"), C("add", "plus")], base=False),
    dict(opts=[O("alpha", "a", "opt", "boolean", default=True), O("beta", "b", "opt", "float", True)], args=[], cmds=[], base=False),
    dict(opts=[], args=[A("one", "req", "integer"), A("two", "req", "boolean")], cmds=[], base=False),
    dict(opts=[O("alpha", None, "flag"), O("beta", None, "req")], args=[A("one", "opt")], cmds=[], base=True),
    dict(opts=[O("alpha", "a", "opt", "boolean"), O("beta", "b", "opt", "string")], args=[A("one", "opt")], cmds=[], base=False),
    dict(opts=[O("alpha", "a", "opt", "float"), O("beta", "b", "multi", "boolean")], args=[A("one", "opt", "boolean")], cmds=[], base=False),
    # several option names that are near one another
    dict(opts=[O("alpha", "a", "flag"), O("alphb", None, "req"), O("alpho", None, "flag"), O("beta", "b", "flag")], args=[A("one", "opt")], cmds=[], base=False),
]


def snap(d):
    return dict((k, list(v) if isinstance(v, list) else v) for k, v in d.items())


def outcome(api, errs, fmt, tokens, lenient, parser=None, raw=None):
    try:
        r = (parser or api.DefaultArgsParser()).parse(raw if raw is not None else api.ArgvArgs(["prog"] + list(tokens)), fmt, lenient)
    except Exception as e:
        if isinstance(e, errs["nso"]):
            return ("nso", e)
        if isinstance(e, errs["cpa"]):
            return ("cpa", e)
        if isinstance(e, ValueError):
            return ("value", e)
        return ("other", e)
    # snapshot at the time of the observation: a later parse must not be able to change what this one reported
    return ("ok", (snap(r.arguments(False)), snap(r.options(False))))


def judge_soup(sh, api, errs, fid, fmt, tokens):
    nt = any(t.startswith("-") and t != "-" for t in tokens)
    case = {"kind": "soup", "format_id": fid, "tokens": list(tokens)}
    s = outcome(api, errs, fmt, tokens, False)
    l = outcome(api, errs, fmt, tokens, True)
    sh.case((fid, tuple(tokens)), nt, n=2)
    sh.count("strict_" + s[0])
    sh.count("lenient_" + l[0])
    if s[0] == "other":
        sh.violate("containment-strict", case, "strict: %r escaped" % (s[1],), classify(fid, tokens, s[1]))
    if l[0] == "other":
        sh.violate("containment-lenient", case, "lenient: %r escaped" % (l[1],), classify(fid, tokens, l[1]))
    if l[0] in ("nso", "cpa"):
        sh.violate("lenient-raises-parse-error", case, "lenient: %r" % (l[1],))
    if s[0] == "ok":
        if l[0] != "ok":
            if l[0] != "other":
                sh.violate("agreement", case, "strict returned %r, lenient raised %r" % (s[1], l[1]))
        elif not (argline.same(s[1][0], l[1][0]) and argline.same(s[1][1], l[1][1])):
            sh.violate("agreement", case, "strict %r != lenient %r" % (s[1], l[1]))
    # one parser object and one raw-args object for both modes (a command configured with set_args_parser parses the
    # same line leniently while resolving and strictly when it runs): the mode still decides, in either order
    judge_soup.n = getattr(judge_soup, "n", 0) + 1
    if judge_soup.n % 3 == 0:
        for order in ((True, False), (False, True)):
            shared, raw = api.DefaultArgsParser(), api.ArgvArgs(["prog"] + list(tokens))
            for lenient in order:
                got = outcome(api, errs, fmt, tokens, lenient, shared, raw)
                ref = l if lenient else s
                same = got[0] == ref[0] and (repr(got[1]) == repr(ref[1]) if got[0] != "ok" else (argline.same(got[1][0], ref[1][0]) and argline.same(got[1][1], ref[1][1])))
                sh.count("shared_parser_parses")
                if not same:
                    sh.violate("mode-ignored-on-shared-parser", dict(case, order=["lenient" if x else "strict" for x in order]),
                               "%s parse of the same raw args on one parser (order %s) gave %r, a fresh parser gives %r" % (
                                   "lenient" if lenient else "strict", "/".join("lenient" if x else "strict" for x in order), got, ref))
                    break


def classify(fid, tokens, exc):
    return None


# ---- fault operators -------------------------------------------------------
def flat(chunks):
    return [t for c in chunks for t in c["tokens"]]


def boundaries_before_dd(chunks):
    """Insertion indexes (in chunks) that are before the '--' separator and
    after the command names."""
    out = []
    for i in range(len(chunks) + 1):
        if any(c["kind"] in ("dd", "tail") for c in chunks[:i]):
            break
        if i < len(chunks) and chunks[i]["kind"] == "cmd":
            continue
        out.append(i)
    return out


def mutate(f, case, ch, op):
    """Returns (tokens, expected error kind) or None when the operator does
    not apply to this line."""
    chunks = [dict(c) for c in case["chunks"]]
    opts = {o["long"]: o for o in f["opts"]}
    bnd = boundaries_before_dd(chunks)
    if op in ("unknown-long", "unknown-short"):
        i = ch.choice(bnd)
        tok = ch.choice(["--zeta", "--zeta=v", "--alphax"]) if op == "unknown-long" else ch.choice(["-z", "-zv"])
        shorts = [o["short"] for o in f["opts"] if o["short"]]
        if op == "unknown-long" and shorts and ch.flip(0.3):
            # the one-letter name of a declared option behind two dashes: no option has that long name
            tok = ch.choice(["--%s", "--%s=v"]) % ch.choice(shorts)
        # do not put it between a bare optional-value option and what follows: still one fault, fine
        chunks.insert(i, dict(kind="opt", tokens=[tok]))
        return flat(chunks), "nso"
    if op == "flag-value":
        flags = [o for o in f["opts"] if o["mode"] == "flag"]
        if not flags:
            return None
        o = ch.choice(flags)
        i = ch.choice(bnd)
        chunks.insert(i, dict(kind="opt", tokens=["--%s=v" % o["long"]]))
        return flat(chunks), "cpa"
    if op == "strip-value":
        cands = [k for k, c in enumerate(chunks) if c["kind"] == "opt" and c.get("opt") and c.get("text") is not None
                 and opts[c["opt"]]["mode"] in ("req", "multi") and c["form"] in ("L_", "S_", "L=")]
        if not cands:
            return None
        k = ch.choice(cands)
        c = chunks.pop(k)
        o = opts[c["opt"]]
        if c["form"] == "L=" or ch.flip(0.3):
            new = ["--%s=" % o["long"]]
            # '--x=' is self-contained: put it back where it was
            chunks.insert(k, dict(kind="opt", tokens=new))
        else:
            new = ["--" + o["long"]] if c["form"] == "L_" or not o["short"] else ["-" + o["short"]]
            # place it last before '--' so that no positional can be taken as its value
            j = boundaries_before_dd(chunks)[-1]
            chunks.insert(j, dict(kind="opt", tokens=new))
        return flat(chunks), "cpa"
    if op == "drop-required":
        if case["nreq"] < 1 or case["k"] != case["nreq"] or case["multi_values"]:
            return None
        # positional chunks in order; the last one fills the last required argument
        idx = [k for k, c in enumerate(chunks) if c["kind"] in ("pos", "tail")]
        if len(idx) != case["nreq"]:
            return None
        chunks.pop(idx[-1])
        return flat(chunks), "cpa"
    if op == "surplus":
        if case["has_multi"] or case["k"] != case["nsingle"]:
            return None
        last_pre = [c for c in chunks if c["kind"] not in ("dd", "tail")]
        has_dd = any(c["kind"] == "dd" for c in chunks)
        if not has_dd and last_pre and last_pre[-1].get("bare"):
            return None
        if not has_dd and last_pre and last_pre[-1]["kind"] == "opt" and last_pre[-1].get("opt") is None and last_pre[-1]["form"].endswith("v_") is False and False:
            return None
        chunks.append(dict(kind="tail" if has_dd else "pos", tokens=[ch.choice(["w", "extra", "9"])]))
        return flat(chunks), "cpa"
    if op == "ill-typed":
        cands = []
        for k, c in enumerate(chunks):
            if c["kind"] == "opt" and c.get("opt") and c.get("text") is not None and opts[c["opt"]]["type"] != "string":
                cands.append(k)
            if c["kind"] in ("pos", "tail"):
                a = [a for a in f["args"] if a["name"] == c["arg"]][0]
                if a["type"] != "string":
                    cands.append(k)
        if not cands:
            return None
        k = ch.choice(cands)
        c = chunks[k]
        typ = opts[c["opt"]]["type"] if c["kind"] == "opt" else [a for a in f["args"] if a["name"] == c["arg"]][0]["type"]
        bad = ch.choice({"integer": ["zz", "1x", "1.2.3", "inf", "1e309", "nan", "Infinity", "1.5", "0x1F", "1e3"],
                         "float": ["zz", "1x", "1.2.3", "tru", "1e", "0x1F", "1,5"],
                         "boolean": ["zz", "1x", "tru", "1.2.3", "2", "nul"]}[typ])
        if c["kind"] == "opt":
            c["tokens"] = [t if i < len(c["tokens"]) - 1 else t[: len(t) - len(c["text"])] + bad for i, t in enumerate(c["tokens"])]
        else:
            c["tokens"] = [bad]
        return flat(chunks), "value"
    raise AssertionError(op)


OPS = ["unknown-long", "unknown-short", "flag-value", "strip-value", "drop-required", "surplus", "ill-typed"]


def judge_mutation(sh, api, errs, f, fmt, tokens, want, op, pattern=()):
    case = {"kind": "mutation", "format": f, "tokens": tokens, "want": want, "op": op}
    sh.case((argline.format_shape(f), op, tuple(pattern)), True, n=2)
    s = outcome(api, errs, fmt, tokens, False)
    l = outcome(api, errs, fmt, tokens, True)
    sh.count("mut_" + op)
    if s[0] != want:
        sh.violate("documented-error", case, "fault %s: strict gave %s %r, documented %s" % (op, s[0], s[1], want))
    if l[0] in ("nso", "cpa", "other"):
        sh.violate("lenient-raises-parse-error" if l[0] != "other" else "containment-lenient", case, "fault %s: lenient raised %r" % (op, l[1]))


class CommandLab(object):
    """Commands of a real application whose leniency comes from the command's configuration, from the application's,
    or from nowhere (strict): Command.parse(raw, mode) must use the explicit mode when one is given, the configured one
    otherwise - and then behave exactly as the parser called directly with that mode."""

    def __init__(self, api):
        from clikit.api.config.application_config import ApplicationConfig
        from clikit.api.config.command_config import CommandConfig
        from clikit.console_application import ConsoleApplication

        self.api, self.ApplicationConfig, self.CommandConfig, self.ConsoleApplication = api, ApplicationConfig, CommandConfig, ConsoleApplication
        self.cache = {}

    def command(self, f, where):
        key = (repr(f), where)
        if key not in self.cache:
            if len(self.cache) > 200:
                self.cache.clear()
            api = self.api
            app_cfg = self.ApplicationConfig("app", "1.0")
            app_cfg.set_catch_exceptions(False)
            app_cfg.set_terminate_after_run(False)
            cfg = self.CommandConfig("cmd")
            for o in f["opts"]:
                ro = api.mkopt(o)
                cfg.add_option(ro.long_name, ro.short_name, ro.flags, ro.description, list(o["default"]) if isinstance(o["default"], list) else o["default"])
            for a in f["args"]:
                ra = api.mkarg(a)
                d = a.get("default")
                cfg.add_argument(ra.name, ra.flags, ra.description, list(d) if isinstance(d, list) else d)
            if where == "command":
                cfg.enable_lenient_args_parsing()
            elif where == "application":
                app_cfg.enable_lenient_args_parsing()
            elif where == "command-off":
                app_cfg.enable_lenient_args_parsing()
                cfg.disable_lenient_args_parsing()
            elif where == "toggled-off":
                cfg.enable_lenient_args_parsing()
            app_cfg.add_command_config(cfg)
            self.cache[key] = self.ConsoleApplication(app_cfg).get_command("cmd")
            # the setting is changed after the command object exists: it is read when parsing, not when building
            if where == "toggled-on":
                cfg.enable_lenient_args_parsing()
            elif where == "toggled-off":
                cfg.disable_lenient_args_parsing()
        return self.cache[key]


def judge_command_modes(sh, api, errs, lab, f, tokens):
    if f["cmds"] or f["base"]:
        return
    for where in ("none", "command", "application", "command-off", "toggled-on", "toggled-off"):
        cmd = lab.command(f, where)
        # what the command's own configuration reports (a setting made on the application is not inherited by its commands)
        configured = bool(cmd.config.is_lenient_args_parsing_enabled())
        if where in ("none", "command", "toggled-on", "toggled-off") and configured != (where in ("command", "toggled-on")):
            sh.violate("command-mode", {"kind": "command-mode", "format": f, "tokens": list(tokens), "configured": where, "explicit": None},
                       "is_lenient_args_parsing_enabled() = %r for leniency configured at %s" % (configured, where))
            return
        for explicit in (None, False, True):
            effective = configured if explicit is None else explicit
            case = {"kind": "command-mode", "format": f, "tokens": list(tokens), "configured": where, "explicit": explicit}
            sh.case(("command-mode", argline.format_shape(f), where, explicit), True)
            try:
                r = cmd.parse(api.ArgvArgs(["prog", "cmd"] + list(tokens)), explicit)
                got = ("ok", (snap(r.arguments(False)), snap(r.options(False))))
            except Exception as e:
                got = ("nso" if isinstance(e, errs["nso"]) else "cpa" if isinstance(e, errs["cpa"]) else "value" if isinstance(e, ValueError) else "other", e)
            want = outcome(api, errs, cmd.args_format, ["cmd"] + list(tokens), effective)
            sh.count("command_mode_parses")
            same = got[0] == want[0] and (got[0] != "ok" or (argline.same(got[1][0], want[1][0]) and argline.same(got[1][1], want[1][1])))
            if not same:
                sh.violate("command-mode", case, "Command.parse(raw, %r) with leniency configured at %s behaves as %s %r; the parser in %s mode gives %s %r" % (
                    explicit, where, got[0], got[1], "lenient" if effective else "strict", want[0], want[1]))
                return


def errors():
    from clikit.api.args.exceptions import CannotParseArgsException, NoSuchOptionException

    return {"nso": NoSuchOptionException, "cpa": CannotParseArgsException}


def plan(tier, seed):
    specs = []
    if tier == "quick":
        for fid in range(len(FORMATS)):
            specs.append({"part": "soup", "fid": fid, "maxlen": 3})
        specs += [{"part": "mut", "lines": 3000}, {"part": "mut", "lines": 3000}]
        return specs
    for fid in range(len(FORMATS)):
        for first in range(0, len(ALPHABET), 10):
            specs.append({"part": "soup", "fid": fid, "maxlen": 4, "first": [first, first + 10], "sampled": 4000})
    specs += [{"part": "mut", "lines": 15000} for _ in range(10)]
    return specs


def run(sh, spec):
    repo.activate()
    api = argline.Api()
    errs = errors()
    if spec["part"] == "soup":
        fid = spec["fid"]
        fmt = api.build(FORMATS[fid])
        first = spec.get("first")
        if first is None or first[0] == 0:
            judge_soup(sh, api, errs, fid, fmt, ())
        for n in range(1, spec["maxlen"] + 1):
            heads = ALPHABET if first is None else ALPHABET[first[0]:first[1]]
            for h in heads:
                for rest in itertools.product(ALPHABET, repeat=n - 1):
                    judge_soup(sh, api, errs, fid, fmt, (h,) + rest)
        for _ in range(spec.get("sampled", 0)):
            n = sh.rng.choice((5, 6))
            judge_soup(sh, api, errs, fid, fmt, tuple(sh.rng.choice(ALPHABET) for _ in range(n)))
        sh.sample({"kind": "soup", "format": FORMATS[fid], "tokens": ["--alpha", "", "-az"][: spec["maxlen"]]})
    else:
        ch = RandomChooser(sh.rng)
        lab = CommandLab(api)
        n = 0
        while n < spec["lines"]:
            f = argline.gen_format(ch)
            fmt = api.build(f)
            case = argline.gen_case(f, ch)
            if case is None:
                continue
            n += 1
            for op in OPS:
                m = mutate(f, case, ch, op)
                if m is None:
                    sh.count("mut_not_applicable")
                    continue
                judge_mutation(sh, api, errs, f, fmt, m[0], m[1], op, case["pattern"])
                if n % 5 == 0:
                    judge_command_modes(sh, api, errs, lab, f, m[0])
                if n <= 2:
                    sh.sample({"kind": "mutation", "op": op, "tokens": m[0], "valid_line": case["tokens"], "want": m[1]})


def finalize(tier, merged):
    c = merged["counters"]
    inc = []
    for k in ("strict_ok", "strict_nso", "strict_cpa", "strict_value", "lenient_ok", "command_mode_parses") + tuple("mut_" + o for o in OPS):
        if not c.get(k):
            inc.append("monitor never observed outcome %s" % k)
    return {"inconclusive": inc}


def replay(sh, case):
    repo.activate()
    api = argline.Api()
    errs = errors()
    if case["kind"] == "command-mode":
        judge_command_modes(sh, api, errs, CommandLab(api), case["format"], case["tokens"])
    elif case["kind"] == "soup":
        judge_soup(sh, api, errs, case["format_id"], api.build(FORMATS[case["format_id"]]), tuple(case["tokens"]))
    else:
        judge_mutation(sh, api, errs, case["format"], api.build(case["format"]), case["tokens"], case["want"], case["op"])
