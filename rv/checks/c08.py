"""C08 - splitting a command string never fails and inverts shell-style quoting.

Monitors: (1) totality + logical termination: sys.monitoring counts the
function activations inside the tokenizer's source file per string and aborts
the run (BaseException) beyond a budget linear in the string length;
(2) quote/unquote inverse law over generated token lists; (3) whitespace
splitting of quote-free text; (4) string form and argv form are
indistinguishable to parser and resolver, option tokens = tokens before '--'.
"""
import itertools
import os
import sys

from rv import repo
from rv.gen import argline, quoting
from rv.gen.choose import RandomChooser

PROPERTY = "C08"
LEVEL = "exploration"
EXHAUSTIVE = {"quick": True, "thorough": True}
RULE = (
    "totality: every string of length <= N over {a,space,tab,',\",\\,-} is tokenised under a step budget "
    "(sys.monitoring PY_START events in the tokenizer file, budget 20*len+50) and a budget of 10 s of process CPU time per call (virtual interval timer; catches "
    "run-away pattern matching that executes no Python-level step); inverse: token lists of 0-4 tokens (every eighth list with a long bare word of up to 80 characters carrying a quoted value, as in --name='a b') x 0-5 "
    "characters over {a,b,space,tab,newline,',\",\\,-,=,e-acute,CJK} that the scheme can express, each token rendered "
    "bare/single/double quoted, joined by varying whitespace runs, must tokenise back exactly; quote-free strings must "
    "equal str.split(); C01-generated lines are parsed (and resolved through an application) from the quoted string and "
    "from the argv list with identical results and option tokens. non-trivial = string containing a quote or backslash; "
    "distinct by string."
)
BOUND = {
    "quick": "all 19608 strings of length <= 5; 20000 token lists; 4000 parse/resolve equivalence lines",
    "thorough": "all 960800 strings of length <= 7; 1000000 token lists; hostile long strings (200-4000 chars); 100000 equivalence lines",
}
ASSUMPTIONS = [
    "a token is expressible when it has no backslash at its end and none immediately before a quote character",
    "bare rendering is only used for non-empty tokens free of whitespace, quotes and backslashes",
    "'unquoted text' in the whitespace clause is text free of quote characters and of backslashes: the backslash is the scheme's escape character and "
    "glues the character after it (a blank too, as in a\\ b) to the token, which the clause does not speak about",
]

ALPHA = "a \t'\"\\-"
TOKCHARS = ["a", "b", " ", "\t", "\n", "'", '"', "\\", "-", "=", "é", "語", "\x0c", "\xa0"]
SEPS = [" ", "  ", "\t", " \t ", "\n", " \n", "\r", "\r\n", "\x0b", "\x0c", "\x1c", "\x1f", "\x85", "\xa0", "\u2003", "\u3000", "\x0c ", "\xa0\t"]
WS_ALPHA = ["a", "b", " ", "\x0c", "\xa0", "\r", "\u2003", "\x1d", "'"]


class StepBudgetExceeded(BaseException):
    pass


class StepMonitor(object):
    """Counts activations of functions defined in the tokenizer's file."""

    TOOL = 3

    def __init__(self, filename):
        self.filename = filename
        self.steps = 0
        self.budget = 10 ** 9
        self.total = 0
        self.max_ratio = 0.0
        mon = sys.monitoring
        mon.use_tool_id(self.TOOL, "c08-steps")
        mon.register_callback(self.TOOL, mon.events.PY_START, self._start)
        mon.set_events(self.TOOL, mon.events.PY_START)

    def _start(self, code, offset):
        if not code.co_filename.startswith(self.filename):
            return sys.monitoring.DISABLE
        self.steps += 1
        if self.steps > self.budget:
            self.budget = 10 ** 9  # raise once
            raise StepBudgetExceeded()

    def arm(self, n):
        self.steps = 0
        self.budget = 20 * n + 50

    def disarm(self, n):
        self.total += self.steps
        if n:
            self.max_ratio = max(self.max_ratio, self.steps / float(n))
        self.budget = 10 ** 9

    def close(self):
        sys.monitoring.set_events(self.TOOL, 0)
        sys.monitoring.free_tool_id(self.TOOL)


class CpuBudgetExceeded(BaseException):
    pass


CPU_VIOLATIONS = [0]


class StopShard(Exception):
    pass


CPU_BUDGET_S = 10.0  # process CPU time (ITIMER_VIRTUAL), not wall-clock: the machine's load does not count


def _cpu_alarm(signum, frame):
    raise CpuBudgetExceeded()


def tokenize(sh, mon, StringArgs, s):
    """Returns the tokens or None after recording a totality violation."""
    import signal

    case = {"kind": "string", "string": s}
    mon.arm(len(s))
    # second termination monitor, for work the step counter cannot see (pattern matching inside the interpreter's
    # C code): a budget of CPU seconds used by this process; the interpreter checks for signals while matching
    signal.signal(signal.SIGVTALRM, _cpu_alarm)
    signal.setitimer(signal.ITIMER_VIRTUAL, CPU_BUDGET_S)
    try:
        try:
            a = StringArgs(s)
            toks = a.tokens
        finally:
            signal.setitimer(signal.ITIMER_VIRTUAL, 0)
    except CpuBudgetExceeded:
        mon.disarm(len(s))
        sh.violate("termination", case, "tokenising a string of length %d used more than %.0f s of CPU time (strings of this length take well under a millisecond)" % (len(s), CPU_BUDGET_S))
        CPU_VIOLATIONS[0] += 1
        if CPU_VIOLATIONS[0] >= 3:
            raise StopShard("three strings exceeded the CPU budget; the rest of this shard was not run")
        return None
    except StepBudgetExceeded:
        mon.disarm(len(s))
        sh.violate("termination", case, "step budget %d exceeded for a string of length %d" % (20 * len(s) + 50, len(s)))
        return None
    except Exception as e:
        mon.disarm(len(s))
        sh.violate("totality", case, "StringArgs(%r) raised %r" % (s[:80], e), classify_string(s, e))
        return None
    mon.disarm(len(s))
    if not isinstance(toks, list) or not all(isinstance(t, str) for t in toks):
        sh.violate("totality", case, "tokens is not a list of str: %r" % (toks,))
        return None
    dd = toks.index("--") if "--" in toks else len(toks)
    if list(a.option_tokens) != toks[:dd]:
        sh.violate("option-tokens", case, "option_tokens=%r, tokens=%r" % (a.option_tokens, toks))
    for probe in ("-a", "a", "--"):
        if a.has_option_token(probe) != (probe in toks[:dd]):
            sh.violate("option-tokens", case, "has_option_token(%r)=%r, tokens=%r" % (probe, a.has_option_token(probe), toks))
    return toks


def nesting_depth(s):
    """Number of quote characters in the string: an upper bound of how deep
    quotes can nest (each nesting level needs its own opening quote)."""
    return sum(1 for c in s if c in "'\"")


def classify_string(s, exc):
    if isinstance(exc, RecursionError) and nesting_depth(s) >= 950:
        return "quote-nesting-deeper-than-recursion-limit"
    return None


def check_string(sh, mon, StringArgs, s):
    nt = any(c in s for c in "'\"\\")
    sh.case(s, nt)
    toks = tokenize(sh, mon, StringArgs, s)
    if toks is None:
        return
    sh.count("strings_tokenised")
    if not nt and toks != s.split():
        sh.violate("whitespace-split", {"kind": "string", "string": s}, "tokens %r != split %r" % (toks, s.split()))


def render_token(t, st):
    if isinstance(st, (list, tuple)):
        # ("prefixed", k, quote style): the first k characters bare, the rest quoted - the shell spelling --name='a b'
        return t[:st[1]] + quoting.render(t[st[1]:], st[2])
    return quoting.render(t, st)


def check_tokens(sh, mon, StringArgs, toks, styles, seps, lead, trail):
    parts = [render_token(t, st) for t, st in zip(toks, styles)]
    s = lead
    for i, p in enumerate(parts):
        if i:
            s += seps[i % len(seps)] if isinstance(seps, list) else seps
        s += p
    s += trail
    case = {"kind": "tokens", "tokens": toks, "styles": styles, "string": s}
    sh.case(s, True)
    got = tokenize(sh, mon, StringArgs, s)
    if got is None:
        return
    sh.count("roundtrips")
    if got != list(toks):
        sh.violate("quote-inverse", case, "%r tokenises to %r, expected %r" % (s, got, toks))


def gen_token(rng, maxlen=5):
    while True:
        t = "".join(rng.choice(TOKCHARS) for _ in range(rng.randint(0, maxlen)))
        if quoting.expressible(t):
            return t


def styles_for(rng, t):
    opts = ["single", "double"]
    if quoting.can_be_bare(t):
        opts.append("bare")
    return rng.choice(opts)


HOSTILE = [
    lambda n: "'" * n, lambda n: '"' * n, lambda n: "'\"" * (n // 2), lambda n: "\\" * n, lambda n: "\\" * (n - 1) + "a",
    lambda n: "a" * n, lambda n: " " * n, lambda n: "'a " * (n // 3), lambda n: "\\'" * (n // 2), lambda n: "\"'\\" * (n // 3),
    lambda n: "'" + "a" * n, lambda n: "-" * n, lambda n: "'\"a" * (n // 3) + "\"'" * 3,
]


def plan(tier, seed):
    if tier == "quick":
        return [{"part": "strings", "maxlen": 5, "slice": [i, 2]} for i in range(2)] + [{"part": "tokens", "n": 10000} for _ in range(2)] + [
            {"part": "equiv", "n": 4000}, {"part": "hostile", "sizes": [200, 400, 1500]}, {"part": "ws", "maxlen": 4}]
    specs = [{"part": "strings", "maxlen": 7, "first": c} for c in ALPHA] + [{"part": "strings", "maxlen": 0}]
    specs += [{"part": "tokens", "n": 125000} for _ in range(8)]
    specs += [{"part": "equiv", "n": 25000} for _ in range(4)]
    specs += [{"part": "hostile", "sizes": [200, 900, 1500, 4000]}, {"part": "ws", "maxlen": 5}]
    return specs


def run(sh, spec):
    repo.activate()
    import clikit.args.token_parser as tp
    from clikit.args import StringArgs

    mon = StepMonitor(os.path.dirname(tp.__file__) + os.sep)  # every function of the clikit.args package counts as a scanner step
    try:
        part = spec["part"]
        if part == "strings":
            first = spec.get("first")
            sl = spec.get("slice")
            k = 0
            for n in range(0, spec["maxlen"] + 1):
                for t in itertools.product(ALPHA, repeat=n):
                    s = "".join(t)
                    if first is not None and s[:1] != first:
                        continue
                    k += 1
                    if sl and k % sl[1] != sl[0]:
                        continue
                    check_string(sh, mon, StringArgs, s)
            sh.sample({"kind": "string", "string": "a '\\\"", "note": "one of the enumerated strings of length 5"} if spec["maxlen"] >= 5 else {"kind": "string", "string": ""})
        elif part == "tokens":
            rng = sh.rng
            for i in range(spec["n"]):
                toks = [gen_token(rng) for _ in range(rng.randint(0, 4))]
                styles = [styles_for(rng, t) for t in toks]
                if i % 8 == 0:
                    # a long option name (or plain word) with a quoted value attached: --some-long-name='a b'
                    name = rng.choice(["--", "-", ""]) + "".join(rng.choice("abcxyz-_.") for _ in range(rng.choice([3, 12, 30, 45, 80]))) + rng.choice(["=", "", ":"])
                    value = gen_token(rng, 8)
                    k = rng.randint(0, len(toks))
                    toks.insert(k, name + value)
                    styles.insert(k, ["prefixed", len(name), rng.choice(["single", "double"])])
                    sh.count("prefixed_tokens")
                seps = [rng.choice(SEPS) for _ in range(4)]
                lead = rng.choice(["", "", " ", "\t "])
                trail = rng.choice(["", "", " ", "\n"])
                check_tokens(sh, mon, StringArgs, toks, styles, seps, lead, trail)
                if i < 2:
                    sh.sample({"kind": "tokens", "tokens": toks, "styles": styles})
        elif part == "hostile":
            for size in spec["sizes"]:
                for h in HOSTILE:
                    s = h(size)
                    check_string(sh, mon, StringArgs, s)
                    sh.count("hostile_strings")
        elif part == "equiv":
            run_equiv(sh, mon, spec["n"])
        elif part == "ws":
            # every kind of whitespace (str.isspace) separates tokens
            for n in range(0, spec["maxlen"] + 1):
                for t in itertools.product(WS_ALPHA, repeat=n):
                    check_string(sh, mon, StringArgs, "".join(t))
                    sh.count("whitespace_strings")
        sh.count("tokenizer_steps", mon.total)
        sh.note("max_steps_per_char", mon.max_ratio)
    except StopShard as e:
        sh.note("stopped_early", str(e))
    finally:
        mon.close()


def run_equiv(sh, mon, n):
    """A command string and the equivalent argv list are indistinguishable to
    the parser and to the resolver."""
    from clikit.api.args.format import Argument, Option
    from clikit.api.config.application_config import ApplicationConfig
    from clikit.console_application import ConsoleApplication

    api = argline.Api()
    ch = RandomChooser(sh.rng)
    rng = sh.rng

    def outcome(fn):
        try:
            return fn()
        except Exception as e:
            return ("exc", type(e).__name__, str(e))

    cfg = ApplicationConfig("app", "1")
    srv = cfg.create_command("server").add_alias("srv").add_argument("host", Argument.OPTIONAL, "h").add_option("port", "p", Option.REQUIRED_VALUE | Option.INTEGER, "p")
    srv.set_handler(lambda *a: 0)
    add = srv.create_sub_command("add").add_alias("plus").add_argument("rest", Argument.MULTI_VALUED, "r").add_option("force", "f", Option.NO_VALUE, "f")
    add.set_handler(lambda *a: 0)
    srv.add_sub_command_config(add)
    cfg.create_command("list").default().add_argument("rest", Argument.MULTI_VALUED, "r").set_handler(lambda *a: 0)
    app = ConsoleApplication(cfg)
    from clikit.config.default_application_config import DefaultApplicationConfig
    from clikit.io.input_stream import StringInputStream
    from clikit.io.output_stream import BufferedOutputStream

    dcfg = DefaultApplicationConfig("app", "1")
    dcfg.set_terminate_after_run(False)
    dsrv = dcfg.create_command("server").add_alias("srv").add_argument("host", Argument.OPTIONAL, "h").add_option("port", "p", Option.REQUIRED_VALUE | Option.INTEGER, "p")
    dsrv.set_description("server").set_handler(lambda *a: 0)
    dadd = dsrv.create_sub_command("add").add_argument("rest", Argument.MULTI_VALUED, "r").add_option("force", "f", Option.NO_VALUE, "f")
    dadd.set_description("add").set_handler(lambda *a: 0)
    dapp = ConsoleApplication(dcfg)
    run_words = ["help", "server", "srv", "add", "--help", "-h", "--", "x y", "-q", "--version", "w", "--port=5", "-f", ""]

    def run_app(raw):
        o, e = BufferedOutputStream(), BufferedOutputStream()
        st = dapp.run(raw, StringInputStream(""), o, e)
        return (st, o.fetch(), e.fetch())

    words = ["server", "srv", "add", "plus", "list", "x y", "it's", 'q"t', "", "-f", "--force", "--port=5", "-p", "7", "--", "w", "--zeta", "tab\there"]
    for i in range(n):
        if i % 5 == 4:
            # a whole run (resolution, help command, global switches) must not tell the two forms apart
            toks = [rng.choice(run_words) for _ in range(rng.randint(0, 4))]
            styles = [styles_for(rng, t) for t in toks]
            s = rng.choice(SEPS[:6]).join(quoting.render(t, st) for t, st in zip(toks, styles))
            rec = {"kind": "equiv-run", "tokens": toks, "string": s}
            sh.case("run:" + s, True)
            a, b = outcome(lambda: run_app(api.StringArgs(s))), outcome(lambda: run_app(api.ArgvArgs(["prog"] + toks)))
            sh.count("equiv_runs")
            if a != b:
                sh.violate("string-argv-equivalence", rec, "a run of %r differs: string form %r, argv form %r" % (toks, str(a)[:160], str(b)[:160]))
            continue
        if i % 2:
            f = argline.gen_format(ch)
            fmt = api.build(f)
            case = None
            while case is None:
                case = argline.gen_case(f, ch)
            toks = list(case["tokens"])
            if rng.random() < 0.3:
                toks.insert(rng.randint(0, len(toks)), rng.choice(["x y", "it's", 'say "hi"', "", "tab\there", "-"]))
        else:
            f = None
            toks = [rng.choice(words) for _ in range(rng.randint(0, 6))]
        styles = [styles_for(rng, t) for t in toks]
        s = (" " if rng.random() < 0.2 else "") + rng.choice(SEPS).join(quoting.render(t, st) for t, st in zip(toks, styles))
        rec = {"kind": "equiv", "tokens": toks, "string": s, "format": f}
        sh.case(s, any(c in s for c in "'\"\\"))
        got = tokenize(sh, mon, api.StringArgs, s)
        if got is None:
            continue
        sa = api.StringArgs(s)
        aa = api.ArgvArgs(["prog"] + toks)
        if list(sa.tokens) != list(aa.tokens) or list(sa.option_tokens) != list(aa.option_tokens):
            sh.violate("string-argv-equivalence", rec, "tokens %r / %r, option tokens %r / %r" % (sa.tokens, aa.tokens, sa.option_tokens, aa.option_tokens))
            continue
        dd = toks.index("--") if "--" in toks else len(toks)
        if list(aa.option_tokens) != toks[:dd]:
            sh.violate("option-tokens", rec, "argv option_tokens=%r" % (aa.option_tokens,))
        if f is not None:
            for lenient in (False, True):
                def p(raw):
                    r = api.DefaultArgsParser().parse(raw, fmt, lenient)
                    return (r.arguments(True), r.options(True))
                a, b = outcome(lambda: p(sa)), outcome(lambda: p(aa))
                sh.count("equiv_parses")
                if repr(a) != repr(b):
                    sh.violate("string-argv-equivalence", rec, "parse differs: string %r, argv %r" % (a, b))
        else:
            def r(raw):
                rc = app.resolve_command(raw)
                return (rc.command.full_name, rc.args.arguments(True), rc.args.options(True))
            a, b = outcome(lambda: r(sa)), outcome(lambda: r(aa))
            sh.count("equiv_resolutions")
            if repr(a) != repr(b):
                sh.violate("string-argv-equivalence", rec, "resolution differs: string %r, argv %r" % (a, b))
        if i < 2:
            sh.sample(rec)


def finalize(tier, merged):
    c = merged["counters"]
    inc = []
    if not c.get("tokenizer_steps"):
        inc.append("step monitor observed no activation inside the tokenizer file (termination clause undecided)")
    for k in ("strings_tokenised", "roundtrips", "equiv_parses", "equiv_resolutions", "equiv_runs"):
        if not c.get(k):
            inc.append("counter %s is zero" % k)
    ratio = max([n.get("max_steps_per_char", 0) for n in merged["notes"]] or [0])
    return {"inconclusive": inc, "coverage": {"max_steps_per_char": ratio}}


def replay(sh, case):
    repo.activate()
    import clikit.args.token_parser as tp
    from clikit.args import StringArgs

    mon = StepMonitor(os.path.dirname(tp.__file__) + os.sep)  # every function of the clikit.args package counts as a scanner step
    try:
        if case["kind"] == "string":
            check_string(sh, mon, StringArgs, case["string"])
        elif case["kind"] == "tokens":
            got = tokenize(sh, mon, StringArgs, case["string"])
            if got is not None and got != case["tokens"]:
                sh.violate("quote-inverse", case, "%r tokenises to %r" % (case["string"], got))
        else:
            sa, aa = StringArgs(case["string"]), None
            from clikit.args import ArgvArgs
            aa = ArgvArgs(["prog"] + case["tokens"])
            if list(sa.tokens) != list(aa.tokens) or list(sa.option_tokens) != list(aa.option_tokens):
                sh.violate("string-argv-equivalence", case, "tokens %r / %r" % (sa.tokens, aa.tokens))
    finally:
        mon.close()
