"""C17 - what is rendered does not depend on what was processed before.

History monitors: (1) every run on a reused application is compared with the
same line on a freshly built application; (2) components rendered twice;
(3) predefined table styles created / customised in every order, each order in
its own pristine subprocess; (4) error traces after an earlier render with
other I/O capabilities, against a pristine process.
"""
import itertools
import json
import os
import subprocess
import sys

from rv import repo

PROPERTY = "C17"
LEVEL = "exploration"
EXHAUSTIVE = {"quick": True, "thorough": True}
RULE = (
    "application with a lenient command, a command that is lenient through an overridden configuration default, a command with a default sub-command, typed options, a failing "
    "handler and one parser object shared by four commands; a catalogue "
    "of 33 command lines (valid, missing / surplus argument, unknown option / command, help in its three forms, help with an "
    "ill-typed option, version, empty line, lenient lines, -v / -vvv runs). Every history of length 2..L over the catalogue is run on ONE "
    "application and each run compared (status, stdout, stderr, handler arguments) with the same line on a fresh "
    "application; each history is run with fresh RawArgs per run and with the same RawArgs object reused for consecutive "
    "equal lines. Components (table, help pages, paragraph, labeled paragraph, name/version, exception trace) are rendered "
    "twice. All 24 orders of creating the predefined table styles x customisations of one of them, each in a pristine "
    "Also: lines with blanks inside tokens, a handler registering a style at run time, a command that owns its question and is given typed input. "
    "subprocess, compared with a process that created only the rendered style. non-trivial = history with a help or failing "
    "run before a normal run; distinct by tuple of line ids / (order, customisation)."
)
BOUND = {
    "quick": "all 1089 histories of length 2 + 1500 sampled of length 3 x 2 RawArgs modes; 12 style orders; 40 component double renders",
    "thorough": "all histories of length 2-3 (30752) + 20000 sampled of length 4 x 2 RawArgs modes; 24 orders x 5 customisations; 400 double renders",
}
ASSUMPTIONS = [
    "two runs are equal when status, both streams and the recorded handler invocations (command, arguments, options) are equal",
]

LINES = [
    ["one", "x"], ["one", "x", "--num=5"], ["one"], ["one", "x", "y"], ["one", "x", "--bogus"], ["nosuch"], ["help"], ["help", "one"], ["one", "--help"],
    ["one", "x", "--num=bad", "--help"], ["one", "x", "--version"], [], ["len"], ["len", "a", "b", "c"], ["grp", "x"], ["grp"], ["bad"], ["help", "grp"],
    ["many", "a", "--", "-x", "--flag"], ["many", "b", "--flag"], ["many", "c", "--version"], ["many", "--flag", "d", "e"],
    ["one", "--num=7", "x", "y"], ["one", "x", "--num=8", "--bogus"], ["one", "-V", "x", "--bogus"],
    # 25-30: verbosity switches (a switch governs its own run), a command that is lenient through an overridden default
    ["one", "x", "-vvv"], ["bad", "-vvv"], ["one", "x", "-v"], ["dfl", "a", "b", "c"], ["help", "dfl"], ["dfl", "--help"],
    # 31-32: a handler given as a factory that keeps state on itself
    ["stateful"], ["stateful", "fail"],
    # 33-36: tokens with a blank inside (quoted on a shell's command line): different lines although they read alike when joined
    ["one", "x y"], ["many", "a b", "c"], ["many", "a", "b c"], ["one", "--num=5", "x y"],
    # 37-38: a handler that registers a style on its I/O at run time, and a command that only uses the tag
    ["styler"], ["show"],
    # 39-40: a command that keeps its question object and asks it again on every run (typed input below)
    ["askq"], ["askq", "twice"],
]
INPUTS = {39: "b\n5\n", 40: "zz\n7\nx\n9\n"}


class Env(object):
    def __init__(self):
        from clikit.api.args.format import Argument, Option
        from clikit.args import ArgvArgs
        from clikit.config.default_application_config import DefaultApplicationConfig
        from clikit.console_application import ConsoleApplication
        from clikit.io.input_stream import StringInputStream
        from clikit.io.output_stream import BufferedOutputStream

        self.Argument, self.Option, self.ArgvArgs = Argument, Option, ArgvArgs
        self.Config, self.App, self.StringInputStream, self.Stream = DefaultApplicationConfig, ConsoleApplication, StringInputStream, BufferedOutputStream

    def build(self, log):
        A, O = self.Argument, self.Option

        class H(object):
            def __init__(self, name, fail=False):
                self.name, self.fail = name, fail

            def handle(self, args, io, command):
                log.append((command.full_name, args.arguments(True), args.options(False), io.verbosity))
                io.write_line("<info>%s</info> ran" % self.name)
                if self.fail:
                    raise RuntimeError("handler failed")
                return 0

        from clikit.api.config.command_config import CommandConfig
        from clikit.args import DefaultArgsParser

        class LenientByDefault(CommandConfig):
            """A command configuration whose default (not its explicit setting) is lenient parsing."""

            @property
            def default_lenient_args_parsing(self):
                return True

        shared_parser = DefaultArgsParser()  # one parser object for several commands
        c = self.Config("my-app", "1.0")
        c.set_terminate_after_run(False)
        dfl = LenientByDefault("dfl")
        dfl.set_description("lenient by default").add_argument("a", A.REQUIRED, "arg a").set_handler(H("dfl"))
        dfl.set_args_parser(shared_parser)
        c.add_command_config(dfl)
        one = c.create_command("one").set_description("the one")
        one.add_argument("a", A.REQUIRED, "arg a").add_option("num", None, O.REQUIRED_VALUE | O.INTEGER, "a number").set_handler(H("one"))
        le = c.create_command("len").set_description("lenient")
        le.add_argument("a", A.REQUIRED, "arg a").enable_lenient_args_parsing()
        le.set_handler(H("len"))
        le.set_args_parser(shared_parser)
        one.set_args_parser(shared_parser)
        grp = c.create_command("grp").set_description("group")
        grp.set_handler(H("grp"))
        sub = grp.create_sub_command("sub").default()
        sub.set_description("default sub").add_argument("item", A.REQUIRED, "item").set_handler(H("sub"))
        other = grp.create_sub_command("other")
        other.set_description("other sub").set_handler(H("other"))
        c.create_command("bad").set_description("fails").set_handler(H("bad", True))
        class Stateful(object):
            """Given to the configuration as a factory (the class): every run gets an object of its own."""

            def __init__(self):
                self.calls = 0
                self.failed = None

            def handle(self, args, io, command):
                self.calls += 1
                log.append((command.full_name, args.arguments(True), args.options(False), io.verbosity))
                io.write_line("call %d of this handler object%s" % (self.calls, "" if self.failed is None else ", after " + self.failed))
                if args.argument("what") == "fail":
                    self.failed = "a failure"
                    raise RuntimeError("asked to fail")
                return 0

        st = c.create_command("stateful").set_description("handler with state")
        st.add_argument("what", A.OPTIONAL, "what to do").set_handler(Stateful)
        from clikit.api.formatter import Style
        from clikit.ui.components import Question

        class Styler(object):
            def handle(self, args, io, command):
                log.append((command.full_name, args.arguments(True), args.options(False), io.verbosity))
                for o in (io.output, io.error_output):
                    o.formatter.add_style(Style("hot").fg("red").bold())
                io.write_line("<hot>42</hot> items")
                return 0

        class Show(object):
            def handle(self, args, io, command):
                log.append((command.full_name, args.arguments(True), args.options(False), io.verbosity))
                io.write_line("<hot>42</hot> items and <info>info</info>")
                return 0

        class Asker(object):
            """Owns its question: the same Question object is asked in every run."""

            def __init__(self):
                self.question = Question("Number?")
                self.question.set_validator(int)
                self.question.set_max_attempts(3)

            def handle(self, args, io, command):
                log.append((command.full_name, args.arguments(True), args.options(False), io.verbosity))
                answers = [self.question.ask(io)]
                if args.argument("mode") == "twice":
                    answers.append(self.question.ask(io))
                io.write_line("answers %r" % (answers,))
                return 0

        c.create_command("styler").set_description("adds a style").set_handler(Styler())
        c.create_command("show").set_description("uses the tag").set_handler(Show())
        c.create_command("askq").set_description("asks").add_argument("mode", A.OPTIONAL, "mode").set_handler(Asker())
        many = c.create_command("many").set_description("many values")
        many.add_argument("items", A.MULTI_VALUED, "items").add_option("flag", "f", O.NO_VALUE, "a flag").set_handler(H("many"))
        many.set_args_parser(shared_parser)
        return self.App(c)

    def run(self, app, raw, typed=""):
        o, e = self.Stream(), self.Stream()
        try:
            st = app.run(raw, self.StringInputStream(typed), o, e)
        except BaseException as ex:
            st = "raised %r" % (ex,)
        return st, o.fetch(), e.fetch()


def run_history(sh, env, idx, reuse_raw, refs):
    log = []
    app = env.build(log)
    record = {"kind": "history", "lines": [LINES[i] for i in idx], "reuse_raw_args": reuse_raw}
    prev = None
    raws = {}
    for k, i in enumerate(idx):
        line = LINES[i]
        if reuse_raw:
            if i not in raws:
                raws[i] = env.ArgvArgs(["prog"] + line)
            raw = raws[i]
        else:
            raw = env.ArgvArgs(["prog"] + line)
        del log[:]
        got = env.run(app, raw, INPUTS.get(i, "")) + (list(log),)
        if i not in refs:
            flog = []
            fapp = env.build(flog)
            refs[i] = env.run(fapp, env.ArgvArgs(["prog"] + line), INPUTS.get(i, "")) + (list(flog),)
        want = refs[i]
        sh.count("runs_compared")
        if got != want:
            which = [n for n, a, b in zip(("status", "stdout", "stderr", "handler"), got, want) if a != b]
            sh.violate("history-dependence", record, "run #%d %r on the reused application differs from a fresh application in %s: %r vs %r" % (
                k, line, ",".join(which), _short(got, which), _short(want, which)), classify(record, k))
            return
        if list(raw.tokens) != line:
            sh.violate("raw-args-mutated", record, "run #%d changed the caller's RawArgs tokens to %r" % (k, raw.tokens))
            return


def _short(res, which):
    d = dict(zip(("status", "stdout", "stderr", "handler"), res))
    return {k: (d[k] if not isinstance(d[k], str) else d[k][:160]) for k in which}


def classify(record, k):
    return None


HELPISH = {6, 7, 8, 9, 17, 29, 30}
FAILING = {2, 3, 4, 5, 9, 16, 26, 32}
NORMAL = {0, 1, 12, 13, 14, 15, 19, 21, 25, 27, 28, 31, 33, 34, 35, 36, 37, 38, 39, 40}


def nontrivial(idx):
    for a in range(len(idx)):
        if idx[a] in HELPISH or idx[a] in FAILING:
            if any(j in NORMAL for j in idx[a + 1:]):
                return True
    return False


# ---- components rendered twice ------------------------------------------------------------------
def double_renders(sh, env, n):
    from clikit.formatter import AnsiFormatter, PlainFormatter
    from clikit.io import BufferedIO
    from clikit.ui.components import LabeledParagraph, NameVersion, Paragraph, Table
    from clikit.ui.components.exception_trace import ExceptionTrace
    from clikit.ui.help import ApplicationHelp, CommandHelp
    from clikit.ui.rectangle import Rectangle
    from clikit.ui.style import TableStyle

    rng = sh.rng
    app = env.build([])

    def fresh_io(ansi, width, verbosity=0):
        io = BufferedIO("", AnsiFormatter(forced=True) if ansi else PlainFormatter())
        io.set_terminal_dimensions(Rectangle(width, 30))
        io.set_verbosity(verbosity)
        return io

    def an_exception():
        def deep(k):
            if k == 0:
                raise ValueError("boom <b>x</b>")
            return deep(k - 1)
        try:
            deep(rng.randint(0, 8))
        except ValueError as e:
            return e

    for i in range(n):
        kind = i % 7
        width = rng.choice([40, 80, 120])
        ansi = rng.random() < 0.5
        verbosity = rng.choice([0, 1, 2, 4])
        if kind == 0:
            tstyle = getattr(TableStyle, rng.choice(["ascii", "solid", "borderless", "compact"]))()
            t = Table(tstyle)
            how = (i // 7) % 5
            mk = (lambda cells: tuple(cells)) if how in (1, 3) else (lambda cells: list(cells))
            t.set_header_row(mk(["A", "B", "C"]))
            rows = [mk([" ".join("w%d" % rng.randint(0, 99) for _ in range(rng.randint(1, 30))) for _ in range(3)]) for _ in range(rng.randint(1, 4))]
            if how in (0, 1):
                for r in rows:
                    t.add_row(r)
            elif how == 2:
                t.add_rows(rows)
            elif how == 3:
                t.set_rows(tuple(rows))
            else:
                t.add_rows(rows)
                t.set_row(0, tuple(rows[-1]))
            styled_table = (i // 7) % 3 == 1
            if styled_table:
                ansi = True
                # cell / header / border styles given as Style objects, some cells carrying tags of their own
                from clikit.api.formatter import Style

                tstyle.cell_style = Style().fg("red")
                tstyle.header_cell_style = Style().bold()
                tstyle.border_style.style = Style().fg("blue")
                t.set_header_row(mk(["<b>A</b>", "B", "<info>C</info>"]))
            comp, label = t, "Table"
            sh.tag("table_row_styles", ["add_row(list)", "add_row(tuple)", "add_rows(lists)", "set_rows(tuple of tuples)", "set_row(tuple)"][how])
        elif kind == 1:
            comp, label = ApplicationHelp(app), "ApplicationHelp"
        elif kind == 2:
            comp, label = CommandHelp(app.get_command(["one", "len", "grp", "bad", "many"][(i // 7) % 5])), "CommandHelp"
        elif kind == 3:
            comp, label = Paragraph("lorem ipsum " * rng.randint(1, 40)), "Paragraph"
        elif kind == 4:
            comp, label = LabeledParagraph("<b>label</b>", "text " * rng.randint(1, 40)), "LabeledParagraph"
        elif kind == 5:
            comp, label = NameVersion(app.config), "NameVersion"
        else:
            comp, label = ExceptionTrace(an_exception()), "ExceptionTrace"
        outs = []
        same_io = (i // 3) % 2 == 1 or (kind == 0 and styled_table)  # every render on a new I/O object, or all three on one (a shared Output in both roles for traces)
        try:
            shared = None
            if same_io:
                shared = fresh_io(ansi, width, verbosity)
                if kind == 6:
                    from clikit.api.io import IO, Input, Output
                    from clikit.io.input_stream import StringInputStream
                    from clikit.io.output_stream import BufferedOutputStream

                    one = Output(BufferedOutputStream(), AnsiFormatter(forced=True) if ansi else PlainFormatter())
                    one.set_verbosity(verbosity)
                    shared = IO(Input(StringInputStream("")), one, one)
                    shared.fetch_output = lambda one=one: one.stream.fetch()
                    shared.fetch_error = lambda: ""
                    shared.clear = lambda one=one: one.stream.clear()
            for _ in range(3):
                io = shared if same_io else fresh_io(ansi, width, verbosity)
                comp.render(io)
                outs.append(io.fetch_output() + io.fetch_error())
                if same_io:
                    io.clear() if hasattr(io, "clear") else None
                    if hasattr(io, "clear_output"):
                        io.clear_output()
                        io.clear_error()
            if same_io and kind != 6:
                # what is written to the same I/O object afterwards does not depend on what was rendered before
                probe_text = "probe <info>x</info> and <b>y</b> end"
                shared.write_line(probe_text)
                after = shared.fetch_output()
                ref_io = fresh_io(ansi, width, verbosity)
                ref_io.write_line(probe_text)
                sh.count("probes_after_render")
                if after != ref_io.fetch_output():
                    sh.violate("render-twice", {"kind": "probe-after-render", "component": label, "width": width, "ansi": ansi, "verbosity": verbosity},
                               "after rendering %s three times, %r is written as %r on that I/O object and as %r on a new one" % (label, probe_text, after, ref_io.fetch_output()))
        except Exception as e:
            sh.violate("render-raises", {"kind": "double-render", "component": label}, "rendering raised %r" % (e,))
            continue
        sh.case(("double", label, width, ansi, verbosity, same_io), True)
        sh.tag("render_io", "one I/O object for the three renders" if same_io else "new I/O object per render")
        sh.count("double_renders")
        if outs[0] != outs[1] or outs[1] != outs[2] or not outs[0]:
            sh.violate("render-twice", {"kind": "double-render", "component": label, "width": width, "ansi": ansi, "verbosity": verbosity},
                       "%s rendered differently the second/third time (lengths %r)" % (label, [len(o) for o in outs]))
    sh.sample({"kind": "double-render", "components": ["Table", "ApplicationHelp", "CommandHelp", "Paragraph", "LabeledParagraph", "NameVersion", "ExceptionTrace"]})


# ---- table styles in pristine subprocesses -----------------------------------------------------------
STYLE_NAMES = ["ascii", "solid", "borderless", "compact"]
CUSTOMISATIONS = ["none", "vertical-chars", "horizontal-chars", "padding", "alignment", "border-style-object", "border-style-in-place"]


def style_child():
    """Runs in a pristine subprocess: argv[1] = JSON {order, customise: [name, what], render: [names]}.
    Prints JSON {name: rendering}."""
    spec = json.loads(sys.argv[1])
    repo.activate()
    from clikit.api.formatter import Style
    from clikit.io import BufferedIO
    from clikit.ui.components import Table
    from clikit.ui.rectangle import Rectangle
    from clikit.ui.style import TableStyle
    from clikit.ui.style.alignment import Alignment

    created = {}
    for name in spec["order"]:
        created[name] = getattr(TableStyle, name)()
        if spec["customise"] and spec["customise"][0] == name:
            st = created[name]
            what = spec["customise"][1]
            if what == "vertical-chars":
                st.border_style.line_vl_char = "#"
                st.border_style.line_vc_char = "#"
                st.border_style.line_vr_char = "#"
            elif what == "horizontal-chars":
                st.border_style.line_ht_char = "~"
                st.border_style.line_hc_char = "~"
                st.border_style.line_hb_char = "~"
                st.border_style.crossing_c_char = "*"
            elif what == "padding":
                st.padding_char = "."
                st.cell_format = "[{}]"
            elif what == "alignment":
                st.set_column_alignment(0, Alignment.RIGHT)
                st.default_column_alignment = Alignment.CENTER
            elif what == "border-style-object":
                st.border_style.style = Style().fg("red")
            elif what == "border-style-in-place":
                # tuned through the fluent mutators of whatever style object the border carries
                if st.border_style.style is None:
                    st.border_style.style = Style()
                st.border_style.style.fg("red").bold()
    out = {}
    for name in spec["render"]:
        if name.startswith("fresh:"):
            # a second, newly created instance of the style that was customised
            st = getattr(TableStyle, name[6:])()
        else:
            st = created.get(name) or getattr(TableStyle, name)()
        t = Table(st)
        t.set_header_row(["Head", "Second column"])
        t.add_row(["a", "some text here"])
        t.add_row(["longer cell", "b"])
        io = BufferedIO()
        io.set_terminal_dimensions(Rectangle(60, 20))
        t.render(io)
        out[name] = io.fetch_output()
        from clikit.formatter import AnsiFormatter

        io = BufferedIO("", AnsiFormatter(forced=True))
        io.set_terminal_dimensions(Rectangle(60, 20))
        t.render(io)
        out[name] += "\n-- decorated --\n" + io.fetch_output()
    sys.stdout.write(json.dumps(out))


def child(spec):
    env = dict(os.environ)
    root = os.path.dirname(os.path.dirname(os.path.dirname(os.path.abspath(__file__))))
    env["PYTHONPATH"] = root
    p = subprocess.run([sys.executable, "-B", "-c", "import rv.checks.c17 as m; m.style_child()", json.dumps(spec)], cwd=root, env=env,
                       stdout=subprocess.PIPE, stderr=subprocess.PIPE, timeout=120)
    if p.returncode != 0:
        raise RuntimeError("style child failed: %s" % p.stderr.decode()[-400:])
    return json.loads(p.stdout.decode())


def run_styles(sh, orders, customs):
    pristine = {}
    for name in STYLE_NAMES:
        pristine[name] = child({"order": [name], "customise": None, "render": [name]})[name]
    for order in orders:
        for cust_name in customs:
            for what in CUSTOMISATIONS[1:] if cust_name else ["none"]:
                spec = {"order": list(order), "customise": [cust_name, what] if cust_name else None, "render": [n for n in STYLE_NAMES if n != cust_name] + (["fresh:" + cust_name] if cust_name else [])}
                rec = dict(spec, kind="styles")
                sh.case(("styles", tuple(order), cust_name, what), True)
                try:
                    got = child(spec)
                except Exception as e:
                    sh.inconclusive_because("style subprocess failed: %s" % e)
                    return
                sh.count("style_orders")
                for name, text in got.items():
                    if text != pristine[name.replace("fresh:", "")]:
                        sh.violate("style-interference", rec, "after creating %r and customising %r (%s) a table with style %r renders as %r, in a pristine process %r" % (
                            list(order), cust_name, what, name, text[:90], pristine[name.replace("fresh:", "")][:90]))
                        break
    run_cell_styles(sh)
    sh.sample({"kind": "styles", "order": list(orders[0]), "customise": [customs[-1], "vertical-chars"]})


def cellstyle_child():
    """Pristine subprocess: argv[1] = JSON list of colour names; one table per colour, each with tag-less cell,
    header and border styles of that colour, rendered in that order on decorated outputs. Prints JSON {colour: text}."""
    colours = json.loads(sys.argv[1])
    repo.activate()
    from clikit.api.formatter import Style
    from clikit.formatter import AnsiFormatter
    from clikit.io import BufferedIO
    from clikit.ui.components import Table
    from clikit.ui.rectangle import Rectangle
    from clikit.ui.style import TableStyle

    out = {}
    for colour in colours:
        st = TableStyle.ascii()
        st.cell_style = Style().fg(colour)
        st.header_cell_style = Style().fg(colour).bold()
        st.border_style.style = Style().bg(colour)
        t = Table(st)
        t.set_header_row(["Head", "Second"])
        t.add_row(["a", "some <b>bold</b> text"])
        io = BufferedIO("", AnsiFormatter(forced=True))
        io.set_terminal_dimensions(Rectangle(60, 20))
        t.render(io)
        out[colour] = io.fetch_output()
    sys.stdout.write(json.dumps(out))


def run_cell_styles(sh):
    """Tables with different (tag-less) cell / header / border styles rendered one after the other in one process:
    each renders as it does in a process of its own."""
    def run(colours):
        env = dict(os.environ)
        root = os.path.dirname(os.path.dirname(os.path.dirname(os.path.abspath(__file__))))
        env["PYTHONPATH"] = root
        p = subprocess.run([sys.executable, "-B", "-c", "import rv.checks.c17 as m; m.cellstyle_child()", json.dumps(colours)], cwd=root, env=env,
                           stdout=subprocess.PIPE, stderr=subprocess.PIPE, timeout=120)
        if p.returncode != 0:
            raise RuntimeError("cell-style child failed: %s" % p.stderr.decode()[-400:])
        return json.loads(p.stdout.decode())

    colours = ["red", "green", "blue"]
    try:
        alone = dict((c, run([c])[c]) for c in colours)
        for order in (["red", "green", "blue"], ["blue", "red", "green"], ["green", "green", "red"]):
            got = run(order)
            sh.case(("cell-styles", tuple(order)), True)
            sh.count("cell_style_orders")
            for c, text in got.items():
                if text != alone[c]:
                    sh.violate("style-interference", {"kind": "cell-styles", "order": order}, "after tables styled %r, the table whose cells are %s renders as %r, in a process of its own %r" % (
                        order[:order.index(c)], c, text[:100], alone[c][:100]))
                    return
    except Exception as e:
        sh.inconclusive_because("cell-style subprocess failed: %s" % e)


# ---- trace cache across I/O capabilities -------------------------------------------------------------------
def trace_child():
    spec = json.loads(sys.argv[1])
    repo.activate()
    from clikit.formatter import PlainFormatter
    from clikit.io import BufferedIO
    from clikit.ui.components.exception_trace import ExceptionTrace

    def a(k):
        if k == 0:
            raise ValueError("cached?")
        return a(k - 1)

    try:
        a(3)
    except ValueError as e:
        exc = e
    outs = []
    for utf8, verbosity in spec["renders"]:
        io = BufferedIO("", PlainFormatter(), supports_utf8=utf8)
        io.set_verbosity(verbosity)
        ExceptionTrace(exc).render(io)
        outs.append(io.fetch_output())
    sys.stdout.write(json.dumps(outs))


def run_trace_cache(sh):
    root = os.path.dirname(os.path.dirname(os.path.dirname(os.path.abspath(__file__))))
    env = dict(os.environ, PYTHONPATH=root)

    def go(renders):
        p = subprocess.run([sys.executable, "-B", "-c", "import rv.checks.c17 as m; m.trace_child()", json.dumps({"renders": renders})], cwd=root, env=env,
                           stdout=subprocess.PIPE, stderr=subprocess.PIPE, timeout=120)
        if p.returncode != 0:
            raise RuntimeError(p.stderr.decode()[-300:])
        return json.loads(p.stdout.decode())

    for first in ([True, 4], [False, 4], [True, 1], [False, 0]):
        for second in ([False, 4], [True, 4], [False, 1]):
            if first == second:
                continue
            rec = {"kind": "trace-history", "first": first, "second": second}
            sh.case(("trace", tuple(first), tuple(second)), True)
            try:
                both = go([first, second])
                alone = go([second])
            except Exception as e:
                sh.inconclusive_because("trace subprocess failed: %s" % e)
                return
            sh.count("trace_histories")
            if both[1] != alone[0]:
                k = next((i for i in range(min(len(both[1]), len(alone[0]))) if both[1][i] != alone[0][i]), 0)
                sh.violate("trace-history-dependence", rec, "a trace rendered (utf8=%s, verbosity=%d) after an earlier render (utf8=%s, verbosity=%d) differs from a pristine render: %r vs %r" % (
                    second[0], second[1], first[0], first[1], both[1][max(0, k - 30):k + 30], alone[0][max(0, k - 30):k + 30]), "snippet-cache-ignores-io-capabilities")


def plan(tier, seed):
    n = len(LINES)
    if tier == "quick":
        return [{"part": "hist", "k": 2, "slice": [i, 2]} for i in range(2)] + [{"part": "hist-sample", "k": 3, "n": 750} for _ in range(2)] + [
            {"part": "components", "n": 42}, {"part": "styles", "orders": 4, "customs": [None, "borderless", "ascii"]}, {"part": "trace"}]
    specs = [{"part": "hist", "k": 3, "slice": [i, 8]} for i in range(8)] + [{"part": "hist", "k": 2, "slice": [0, 1]}]
    specs += [{"part": "hist-sample", "k": 4, "n": 2500} for _ in range(8)] + [{"part": "components", "n": 420}]
    specs += [{"part": "styles", "orders": 24, "customs": [c], "oslice": [i, 2]} for c in [None] + STYLE_NAMES for i in range(2)] + [{"part": "trace"}]
    return specs


def run(sh, spec):
    repo.activate()
    env = Env()
    part = spec["part"]
    refs = {}
    if part == "hist":
        i, n = spec["slice"]
        for j, idx in enumerate(itertools.product(range(len(LINES)), repeat=spec["k"])):
            if j % n != i:
                continue
            for reuse in (False, True):
                run_history(sh, env, idx, reuse, refs)
                sh.case((idx, reuse), nontrivial(idx))
                if nontrivial(idx) and not sh.samples:
                    sh.sample({"kind": "history", "lines": [LINES[i2] for i2 in idx], "reuse_raw_args": reuse})
    elif part == "hist-sample":
        for _ in range(spec["n"]):
            idx = tuple(sh.rng.randrange(len(LINES)) for _ in range(spec["k"]))
            for reuse in (False, True):
                run_history(sh, env, idx, reuse, refs)
                sh.case((idx, reuse), nontrivial(idx))
    elif part == "components":
        double_renders(sh, env, spec["n"])
    elif part == "styles":
        orders = list(itertools.permutations(STYLE_NAMES))
        if spec["orders"] < 24:
            orders = sh.rng.sample(orders, spec["orders"])
        if "oslice" in spec:
            orders = orders[spec["oslice"][0]::spec["oslice"][1]]
        run_styles(sh, orders, spec["customs"])
    else:
        run_trace_cache(sh)


def finalize(tier, merged):
    c = merged["counters"]
    inc = []
    for k in ("runs_compared", "double_renders", "style_orders", "trace_histories"):
        if not c.get(k):
            inc.append("counter %s is zero" % k)
    return {"inconclusive": inc}


def replay(sh, case):
    repo.activate()
    env = Env()
    if case.get("kind") == "history":
        idx = tuple(LINES.index(l) for l in case["lines"])
        run_history(sh, env, idx, case["reuse_raw_args"], {})
    else:
        sh.inconclusive_because("rerun the check with the same VERIF_SEED")
