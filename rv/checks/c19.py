"""C19 - the automatic progress indicator is well-behaved under every interleaving.

Controlled-schedule exploration: the deterministic scheduler (rv/instruments/
sched.py) substitutes threading.Thread / threading.Event / time.sleep / time.time
and makes every stream write a scheduling point; schedules are enumerated
depth-first with a pre-emption bound and sampled at random beyond it.  A trace
checker replays the per-thread stream writes on the terminal emulator.
An uncontrolled stress engine (real threads, real time, a stream that yields
inside write) is an independent cross-check.  Manual mode uses the virtual clock.
"""
import re

from rv import repo
from rv.instruments.term import Term, UnknownSequence

PROPERTY = "C19"
LEVEL = "exploration"
EXHAUSTIVE = False
RULE = (
    "main-thread programs: auto('start-msg','end-msg') body of 0-3 steps from {set_message(short|long), work 30/150/400 ms, raise "
    "ValueError, raise KeyboardInterrupt, raise SystemExit}; schedules: depth-first enumeration of scheduling choices (thread "
    "start, join, event set/is_set, sleep, every stream write; a sleeping thread is a candidate and choosing it advances the "
    "virtual clock) with a pre-emption bound (2 quick / 6 thorough, capped per program), plus seeded random schedules; per "
    "schedule: spinner not alive and joined after the with-block for every kind of exit; last frame = ' - end-msg' + line "
    "break on normal exit; after every write the emulator's current line is empty or exactly one frame ' <value> <message>' "
    "of a message that was current; every program is also run on an undecorated output (frames are appended lines) and inside "
    "an indentation scope. Stress engine: real threads with 0.1-0.5 ms yields inside write. Manual mode: all call "
    "Also (scheduler variants): file-backed stream with a 5000-character message, stream failing on the line-ending write of a raising body; (manual) formats chosen by the component on an I/O whose standard output is of the other kind. "
    "sequences of length <= 6 over {start, advance, set_message, finish} x clock steps {0,50,99,100,250 ms}. non-trivial = "
    "schedule with >= 1 pre-emption or a raising body; distinct by trace hash (thread, label sequence)."
)
BOUND = {
    "quick": "11 programs x pre-emption bound 2 (cap 600 schedules each) + 120 random schedules each; 12 stress trials; manual sequences of length <= 5",
    "thorough": "26 programs x pre-emption bound 6 (cap 80000 schedules each) + 6000 random schedules each; 320 stress trials; manual sequences of length <= 6",
}
ASSUMPTIONS = [
    "one OutputStream.write is atomic (a terminal write of a short string); pre-emption inside a write is not explored",
    "bounded progress: the join must complete within the scheduler's step bound after the stop event was set",
]

MSGS = {"s": "m1", "l": "a much longer second message", "m": "mid msg"}
STEPS = [("msg", "s"), ("msg", "l"), ("work", 0.03), ("work", 0.15), ("work", 0.4), ("raise", "ValueError"), ("raise", "KeyboardInterrupt"), ("raise", "SystemExit")]
VALUES = ["-", "\\", "|", "/"]


def programs(tier):
    base = [
        [], [("work", 0.15)], [("work", 0.15), ("msg", "l"), ("work", 0.15)], [("msg", "s"), ("msg", "l")], [("work", 0.4), ("msg", "s")],
        [("work", 0.15), ("raise", "ValueError")], [("msg", "l"), ("raise", "KeyboardInterrupt")], [("work", 0.03), ("raise", "SystemExit")],
        [("work", 0.15), ("msg", "l"), ("work", 0.03), ("msg", "s")],
        [("work", 0.03), ("raise", "BodyCancelled")], [("msg", "s"), ("raise", "GeneratorExit")],
    ]
    if tier == "quick":
        return base
    extra = [
        [("work", 0.4)], [("msg", "l"), ("work", 0.4), ("msg", "s")], [("work", 0.03), ("msg", "m"), ("work", 0.03)], [("raise", "ValueError")],
        [("raise", "SystemExit")], [("work", 0.4), ("raise", "KeyboardInterrupt")], [("msg", "s"), ("work", 0.15), ("raise", "SystemExit")],
        [("work", 0.15), ("work", 0.15), ("msg", "l")], [("msg", "l"), ("msg", "s"), ("msg", "m")], [("work", 0.03), ("work", 0.03), ("work", 0.03)],
        [("msg", "m"), ("work", 0.4), ("raise", "ValueError")], [("work", 0.15), ("msg", "s"), ("raise", "SystemExit")],
        [("work", 0.4), ("msg", "l"), ("work", 0.4)], [("msg", "s"), ("work", 0.03), ("msg", "l")], [("work", 0.15), ("raise", "KeyboardInterrupt")],
    ]
    return base + extra


class BodyCancelled(BaseException):
    """A BaseException that is none of the interpreter's own (like asyncio.CancelledError)."""


RAISABLE = {"ValueError": ValueError, "KeyboardInterrupt": KeyboardInterrupt, "SystemExit": SystemExit, "BodyCancelled": BodyCancelled, "GeneratorExit": GeneratorExit}

FRAME = re.compile(r"^\s*(.) (.*)$")  # leading indentation, if any, is not part of the frame


def frame_ok(line, messages):
    """line is empty or exactly one frame of a message that was current at some time."""
    if line == "":
        return True
    if "" in messages and line.strip() in VALUES:
        return True  # a frame with an empty message
    m = FRAME.match(line)
    if not m or m.group(1) not in VALUES:
        return False
    return m.group(2) in messages


class Lab(object):
    def __init__(self, sched=None):
        from clikit.api.io.output import Output
        from clikit.formatter import AnsiFormatter, PlainFormatter
        from clikit.io.output_stream import BufferedOutputStream
        from clikit.ui.components import ProgressIndicator

        self.Output, self.AnsiFormatter, self.PlainFormatter, self.ProgressIndicator = Output, AnsiFormatter, PlainFormatter, ProgressIndicator
        lab = self

        class SchedStream(BufferedOutputStream):
            def __init__(self):
                BufferedOutputStream.__init__(self)
                self.ev = []

            fail_newline = False

            def write(self, x):
                sched.SCHED.point("write")
                if self.fail_newline and x == "\n" and sched.SCHED.me() == "main":
                    # the stream fails (a closed pipe) exactly when the line is to be terminated
                    raise OSError(32, "Broken pipe")
                self.ev.append((sched.SCHED.me(), x))
                BufferedOutputStream.write(self, x)

        self.SchedStream = SchedStream

        import io as _io

        from clikit.io.output_stream import StreamOutputStream

        class SchedFile(_io.StringIO):
            """A text file object whose every write call is a scheduling point (what a console stream writes to)."""

            def __init__(self, owner):
                _io.StringIO.__init__(self)
                self.owner = owner

            def write(self, x):
                sched.SCHED.point("write")
                self.owner.ev.append((sched.SCHED.me(), x))
                return _io.StringIO.write(self, x)

        class FileSchedStream(StreamOutputStream):
            def __init__(self):
                self.ev = []
                StreamOutputStream.__init__(self, SchedFile(self))

            def supports_ansi(self):
                return True

        self.FileSchedStream = FileSchedStream


def run_schedule(lab, sched, program, prefix, rng=None, max_steps=600, variant="ansi"):
    """Executes the program under one schedule. Returns a result dict.
    variant: 'ansi' (decorated output), 'indented' (decorated, inside an indentation scope), 'plain' (undecorated),
    'empty-end' (decorated, the end message is the empty string)."""
    taken = []

    def choose(r, s, default_idx):
        k = len(taken)
        if k < len(prefix):
            idx = prefix[k] % len(r)
        elif rng is not None and rng.random() < 0.3:
            idx = rng.randrange(len(r))
        else:
            idx = default_idx
        taken.append(idx)
        return r[idx]

    s = sched.new_run(choose, max_steps)
    # 'file-long': the library's wrapper of a file object, and a first message of several thousand characters
    st = lab.FileSchedStream() if variant == "file-long" else lab.SchedStream()
    if variant == "fail-newline":
        st.fail_newline = True
    out = lab.Output(st, lab.PlainFormatter() if variant == "plain" else lab.AnsiFormatter(forced=True))
    scope = out.indent(3) if variant == "indented" else None
    pi = lab.ProgressIndicator(out, fmt=" {indicator} {message}" if variant != "plain" else " {message}", interval=100)
    import time

    err = None
    end_message = "" if variant == "empty-end" else "end-msg"
    start_message = "start-" + "L" * 5000 if variant == "file-long" else "start-msg"
    messages = {start_message, end_message}
    exited = False
    try:
        try:
            with pi.auto(start_message, end_message):
                for kind, arg in program:
                    if kind == "msg":
                        messages.add(MSGS[arg])
                        pi.set_message(MSGS[arg])
                    elif kind == "work":
                        time.sleep(arg)
                    else:
                        raise RAISABLE[arg]("body raised")
        except sched.Killed:
            raise
        except BaseException as e:
            err = e
        exited = True
    except sched.Killed:
        pass
    threads = dict((n, t["status"]) for n, t in s.threads.items())
    spinner = [n for n in threads if n != "main"]
    if scope is not None:
        scope.__exit__(None, None, None)
    res = dict(variant=variant, aborted=s.abort, abort_reason=s.abort_reason, exited=exited, error=err, events=list(st.ev), trace=list(s.trace), choices=list(s.choices),
               spinner_registered=bool(spinner), spinner_alive=any(threads[n] != "done" for n in spinner), messages=messages,
               spinner_error=[s.threads[n].get("error") for n in spinner if s.threads[n].get("error")], join_requested_at=s.join_requested_at, steps=s.steps,
               )
    if s.abort:
        # release everything that still waits
        with s.cv:
            s.cv.notify_all()
    return res


def judge(sh, res, program, record):
    if not res["spinner_registered"] and res["error"] is not None and not res["aborted"] and type(res["error"]).__name__ not in [a for k, a in program if k == "raise"]:
        # the automatic mode itself failed before any spinner existed
        sh.violate("unexpected-exception", record, "auto() raised %r" % (res["error"],))
        return
    if not res["spinner_registered"]:
        sh.inconclusive_because("the spinner thread never registered with the scheduler (component no longer uses threading.Thread?)")
        return
    if res["aborted"]:
        if res["abort_reason"] == "step bound" and res["join_requested_at"] is not None and res["steps"] - res["join_requested_at"] >= 150:
            sh.violate("join-bounded", record, "the spinner was asked to stop and joined at step %d but had not finished %d steps later" % (
                res["join_requested_at"], res["steps"] - res["join_requested_at"]))
        elif res["abort_reason"] == "deadlock":
            sh.violate("deadlock", record, "no thread can run: %r" % (res["trace"][-6:],))
        else:
            sh.count("schedules_cut_by_step_bound")
        return
    sh.count("schedules_completed")
    raising = [a for k, a in program if k == "raise"]
    if res["spinner_error"]:
        sh.violate("spinner-crashed", record, "the spinner thread died of %r" % (res["spinner_error"][0],))
    # (1) stopped and joined, whatever the exit
    if res["spinner_alive"]:
        sh.violate("spinner-alive", record, "after leaving auto() (%s) the spinner thread is still alive" % (("body raised " + raising[0]) if raising else "normal exit"))
        return
    if res["variant"] == "fail-newline":
        # the stream's own error may replace the body's; what matters here is that the spinner was stopped and joined (above)
        sh.count("schedules_with_failing_stream")
        return
    if raising:
        if res["error"] is None or type(res["error"]).__name__ != raising[0]:
            sh.violate("exception-lost", record, "body raised %s but auto() propagated %r" % (raising[0], res["error"]))
    elif res["error"] is not None:
        sh.violate("unexpected-exception", record, "auto() raised %r" % (res["error"],))
        return
    if res["variant"] == "plain":
        # undecorated output: frames are appended lines; the end message is the last non-empty line
        text = "".join(x for _, x in res["events"])
        sh.count("writes_replayed", len(res["events"]))
        if "\x1b" in text or "\r" in text:
            sh.violate("plain-control-codes", record, "undecorated output received control codes: %r" % text[:80])
        lines = [l for l in text.split("\n") if l.strip()]
        if any(l.strip() not in res["messages"] for l in lines):
            sh.violate("frame-mixture", record, "undecorated output has a line that is not one message: %r" % [l for l in lines if l.strip() not in res["messages"]][:2])
        elif not raising and (not lines or lines[-1].strip() != "end-msg"):
            sh.violate("end-frame", record, "after a normal exit the last line is %r" % (lines[-1:] if lines else None,))
        return
    # (3) no mixture after any write
    t = Term(20000 if res["variant"] == "file-long" else 200)
    try:
        for who, x in res["events"]:
            t.feed(x)
            line = t.current_line()
            sh.count("writes_replayed")
            if not frame_ok(line, res["messages"]):
                sh.violate("frame-mixture", record, "after a write by %s the terminal line is %r: not a single frame" % (who, line), classify_mixture(res))
                return
    except UnknownSequence as e:
        sh.inconclusive_because("unknown control sequence %s" % e)
        return
    # (2) normal exit: end message is the last frame
    if not raising:
        scr = t.screen()
        want_last = "-" if res["variant"] == "empty-end" else "- end-msg"
        if not scr or scr[-1].strip() != want_last or not "".join(x for _, x in res["events"]).endswith("\n"):
            sh.violate("end-frame", record, "after a normal exit the screen ends with %r" % (scr[-1:] if scr else None,))


def classify_mixture(res):
    return None


TRACES = set()


def explore(sh, lab, sched, program, bound, cap, pid, variant="ansi"):
    """Depth-first enumeration of schedules with at most ``bound`` pre-emptions."""
    seen = set()
    stack = [()]
    n = 0
    while stack and n < cap:
        prefix = stack.pop()
        if prefix in seen:
            continue
        seen.add(prefix)
        res = run_schedule(lab, sched, program, list(prefix), variant=variant)
        n += 1
        choices = res["choices"]
        pre = sum(1 for c in choices if c[2])
        record = {"program": [list(s) for s in program], "schedule": [c[1] for c in choices], "variant": variant}
        trace_hash = hash(tuple(res["trace"]))
        TRACES.add((pid, variant, trace_hash))
        sh.case((pid, variant, trace_hash), pre >= 1 or any(k == "raise" for k, _ in program))
        sh.count("interleavings_run")
        if pre >= 2 and len(sh.samples) < 2:
            sh.sample({"program": [list(x) for x in program], "schedule_choices": [c[1] for c in choices], "preemptions": pre,
                       "trace": ["%s:%s" % t for t in res["trace"]][:40]})
        judge(sh, res, program, record)
        # children: deviate at one later position
        taken = [c[1] for c in choices]
        used = 0
        for i, (nopt, idx, was_pre) in enumerate(choices):
            if i >= len(prefix):
                for j in range(nopt):
                    if j == idx:
                        continue
                    # deviating from the default (continue current) costs one pre-emption
                    if used + 1 <= bound:
                        stack.append(tuple(taken[:i]) + (j,))
            if was_pre:
                used += 1
    return n, not stack


def run_random(sh, lab, sched, program, nsched, pid):
    for _ in range(nsched):
        res = run_schedule(lab, sched, program, [], rng=sh.rng)
        record = {"program": [list(s) for s in program], "schedule": [c[1] for c in res["choices"]]}
        pre = sum(1 for c in res["choices"] if c[2])
        TRACES.add((pid, hash(tuple(res["trace"]))))
        sh.case((pid, hash(tuple(res["trace"]))), pre >= 1 or any(k == "raise" for k, _ in program))
        sh.count("interleavings_run")
        judge(sh, res, program, record)


# ---- uncontrolled stress engine --------------------------------------------------------------------------
def run_stress(sh, trials):
    import threading
    import time

    from clikit.api.io.output import Output
    from clikit.formatter import AnsiFormatter
    from clikit.io.output_stream import BufferedOutputStream
    from clikit.ui.components import ProgressIndicator

    rng = sh.rng

    class YieldStream(BufferedOutputStream):
        def __init__(self):
            BufferedOutputStream.__init__(self)
            self.ev = []
            self.lock = threading.Lock()

        def write(self, x):
            time.sleep(rng.choice([0.0001, 0.0003, 0.0005]))
            with self.lock:
                self.ev.append((threading.current_thread().name, x))
                BufferedOutputStream.write(self, x)

    for k in range(trials):
        st = YieldStream()
        out = Output(st, AnsiFormatter(forced=True))
        pi = ProgressIndicator(out, fmt=" {indicator} {message}", interval=1)
        kind = rng.choice(["normal", "normal", "ValueError", "SystemExit", "BodyCancelled"])
        msgs = {"start-msg", "end-msg"}
        plan_msgs = [("message number %d %s" % (i, "x" * rng.randint(0, 20))).strip() for i in range(rng.randint(3, 12))]
        pauses = [rng.choice([0, 0.001, 0.003]) for _ in plan_msgs]
        msgs.update(plan_msgs)

        def body():
            try:
                with pi.auto("start-msg", "end-msg"):
                    for m, pause in zip(plan_msgs, pauses):
                        pi.set_message(m)
                        time.sleep(pause)
                    if kind != "normal":
                        raise RAISABLE[kind]("body raised")
            except BaseException:
                pass

        before = set(threading.enumerate())
        runner = threading.Thread(target=body, name="MainThread-of-trial", daemon=True)
        runner.start()
        runner.join(20)
        if runner.is_alive():
            # wall-clock watchdog: never a verdict (the controlled engine decides bounded progress)
            sh.inconclusive_because("stress trial %d (%s) did not leave auto() within 20 s of wall-clock time" % (k, kind))
            return
        record = {"kind": "stress", "exit": kind, "trial": k}
        sh.case(("stress", kind, k), True)
        sh.count("stress_trials")
        # public observation: threads that exist now and did not exist before the trial
        leaked = [t for t in threading.enumerate() if t not in before and t is not runner and t.is_alive()]
        if leaked:
            sh.violate("spinner-alive", record, "after leaving auto() (%s) the spinner thread is still alive: %r" % (kind, [t.name for t in leaked]))
            # best-effort clean-up so that the shard can end (not part of the oracle)
            ev = getattr(pi, "_auto_running", None)
            if ev is not None:
                ev.set()
                for t in leaked:
                    t.join(2)
            if any(t.is_alive() for t in leaked):
                sh.note("leaked_threads", True)
                return
            continue
        t = Term(200)
        for who, x in st.ev:
            t.feed(x)
            sh.count("writes_replayed")
            if not frame_ok(t.current_line(), msgs):
                sh.violate("frame-mixture", record, "after a write by %s the terminal line is %r" % (who, t.current_line()))
                break


# ---- manual mode ---------------------------------------------------------------------------------------------
def run_manual(sh, maxlen):
    import itertools

    from rv.instruments import vclock

    clock = vclock.install()
    from clikit.api.io.output import Output
    from clikit.formatter import AnsiFormatter, PlainFormatter
    from clikit.io.output_stream import BufferedOutputStream
    from clikit.ui.components import ProgressIndicator

    class Rec(BufferedOutputStream):
        def __init__(self):
            BufferedOutputStream.__init__(self)
            self.ev = []

        def write(self, x):
            self.ev.append((clock.now, x))
            BufferedOutputStream.write(self, x)

    OPS = ["start", "advance", "advance", "msg", "finish"]
    STEPS_MS = [0, 50, 99, 100, 250]
    EMPTY = {"finish": "", "msg": "", "start": ""}
    # (format given explicitly or chosen by the component, verbosity of the output, decorated, indicator values, interval ms)
    BRAILLE = ["⠋", "⠙", "⠹", "⠸", "⠼", "⠴", "⠦", "⠧"]
    VARIANTS = [("explicit", 0, True, None, 100)]
    for verbosity in (0, 1, 2, 4):
        for decorated in (True, False):
            VARIANTS.append(("chosen", verbosity, decorated, None, 100))
    # the indicator is given an I/O whose standard output is of the other kind than the error output the frames go to
    VARIANTS += [("chosen-mixed", 0, True, None, 100), ("chosen-mixed", 1, False, None, 100), ("chosen-mixed", 2, True, None, 100)]
    VARIANTS += [("chosen", 0, True, BRAILLE, 100), ("explicit", 1, True, ["ab", "cd", "ef"], 250), ("chosen", 2, True, ["<", ">"], 50), ("explicit", 0, True, BRAILLE, 0)]
    TEXTS = {"start-msg": "start-msg", "end-msg": "end-msg"}
    rng = sh.rng
    seqno = 0
    for n in range(1, maxlen + 1):
        for ops in itertools.product(range(len(OPS)), repeat=n):
            clocks = [rng.choice(STEPS_MS) for _ in ops]
            seqno += 1
            how, verbosity, decorated, values, interval = VARIANTS[seqno % len(VARIANTS)] if seqno % 3 else VARIANTS[0]
            styled = seqno % 5 == 0  # messages wrapped in a style tag, as applications usually pass them
            empties = seqno % 7 == 3  # the messages of this sequence are empty strings
            st = Rec()
            out = Output(st, AnsiFormatter(forced=True) if decorated else PlainFormatter())
            out.set_verbosity(verbosity)
            kw = {"interval": interval}
            if how == "explicit":
                kw["fmt"] = " {indicator} {message}"
            if values is not None:
                kw["values"] = list(values)
            target = out
            if how == "chosen-mixed":
                from clikit.api.io import IO, Input
                from clikit.io.input_stream import StringInputStream

                other = Output(Rec(), PlainFormatter() if decorated else AnsiFormatter(forced=True))
                other.set_verbosity(verbosity)
                target = IO(Input(StringInputStream("")), other, out)
            pi = ProgressIndicator(target, **kw)
            allowed = list(values) if values is not None else VALUES
            shows_indicator = decorated or how == "explicit"
            sh.tag("manual_variant", "%s/v%d/%s/%s/%d" % (how, verbosity, "ansi" if decorated else "plain", "default" if values is None else "".join(values)[:4], interval))
            started = ever_started = False
            msgs = set()
            cur = None
            last_redraw = None
            record = {"kind": "manual", "ops": [OPS[i] for i in ops], "clocks_ms": clocks, "format": how, "verbosity": verbosity, "decorated": decorated,
                      "values": values, "interval_ms": interval, "styled_messages": styled}
            sh.case(("manual", ops, tuple(clocks), seqno % len(VARIANTS) if seqno % 3 else 0, styled), n >= 3)
            bad = False

            def wrap(m):
                return "<info>%s</info>" % m if styled else m

            for i, c in zip(ops, clocks):
                clock.advance(c / 1000.0)
                op = OPS[i]
                n0 = len(st.ev)
                try:
                    if op == "start":
                        new = "" if empties else "start-msg"
                        pi.start(wrap(new) if new else "")
                        cur = new
                    elif op == "advance":
                        pi.advance()
                    elif op == "msg":
                        new = "" if empties else "msg-%d" % len(msgs)
                        pi.set_message(wrap(new) if new else "")
                        cur = new
                    else:
                        new = "" if (empties or seqno % 2) and not styled else "end-msg"
                        pi.finish(wrap(new) if new else "")
                        cur = new
                except TypeError:
                    # set_message() before the first start() with a format that shows the elapsed time fails on the missing
                    # start time: a call outside the property (nothing has been started), counted, not judged
                    if op == "msg" and not ever_started and how.startswith("chosen") and verbosity >= 1:
                        sh.count("manual_set_message_before_start_with_elapsed")
                        cur = None
                        continue
                    raise
                except RuntimeError:
                    # documented misuse errors (not started / already started)
                    if (op == "start") == started:
                        continue
                    sh.violate("manual-raises", record, "%s raised RuntimeError although the indicator was %sstarted" % (op, "" if started else "not "))
                    bad = True
                    break
                if op == "start":
                    started = ever_started = True
                elif op == "finish":
                    started = False
                msgs.add(cur)
                new = st.ev[n0:]
                text = "".join(x for _, x in new)
                if op == "advance" and new:
                    now = clock.now
                    if last_redraw is not None and (now - last_redraw) * 1000 < interval - 1e-6:
                        sh.violate("manual-interval", record, "advance redrew %.0f ms after the previous advance-redraw (interval %d ms)" % ((now - last_redraw) * 1000, interval))
                        bad = True
                        break
                if op in ("advance", "start") and new:
                    last_redraw = clock.now
                if new:
                    sh.count("manual_frames")
                    if "\x1b" in text and not decorated:
                        sh.violate("manual-frame", record, "undecorated output received an escape sequence: %r" % text[:60])
                        bad = True
                        break
                    t = Term(200)
                    t.feed("".join(x for _, x in st.ev))
                    line = t.current_line() if not text.endswith("\n") else (t.screen()[-1] if t.screen() else "")
                    if not decorated:
                        line = text.split("\n")[0]  # undecorated frames are whole lines (possibly blank ones)
                    # one frame: [indicator value] current message [(elapsed time) in the verbose formats the component chooses]
                    body = line.strip()
                    ok = True
                    if shows_indicator:
                        v = next((v for v in allowed if body.startswith(v + " ") or body == v), None)
                        ok = v is not None
                        body = body[len(v) + 1:] if ok else body
                    if ok:
                        if body == cur:
                            pass
                        elif how.startswith("chosen") and verbosity >= 1 and (body.startswith(cur + " (") or (cur == "" and body.startswith("("))) and body.endswith(")"):
                            sh.count("manual_frames_with_elapsed")
                        else:
                            ok = False
                    if not ok:
                        sh.violate("manual-frame", record, "after %s the line is %r, expected %s the current message %r" % (
                            op, line, "one of the indicator values %r and" % (allowed,) if shows_indicator else "", cur))
                        bad = True
                        break
            if bad:
                continue
    vclock.uninstall()


def plan(tier, seed):
    progs = programs(tier)
    if tier == "quick":
        specs = [{"part": "explore", "programs": list(range(i, len(progs), 3)), "bound": 2, "cap": 600, "random": 120} for i in range(3)]
        specs += [{"part": "stress", "trials": 6} for _ in range(2)] + [{"part": "manual", "maxlen": 5}]
        return specs
    specs = [{"part": "explore", "programs": [i], "bound": 6, "cap": 80000, "random": 6000} for i in range(len(progs))]
    specs += [{"part": "stress", "trials": 40} for _ in range(8)] + [{"part": "manual", "maxlen": 6}]
    return specs


def run(sh, spec):
    repo.activate()
    part = spec["part"]
    if part == "explore":
        from rv.instruments import sched

        sched.install()
        lab = Lab(sched)
        progs = programs(sh.tier)
        complete = 0
        for pid in spec["programs"]:
            n, done = explore(sh, lab, sched, progs[pid], spec["bound"], spec["cap"], pid)
            complete += done
            sh.count("programs")
            run_random(sh, lab, sched, progs[pid], spec["random"], pid)
            # the same program on an undecorated output and inside an indentation scope (smaller bound)
            for variant in ("plain", "indented", "empty-end", "file-long") + (("fail-newline",) if any(k == "raise" for k, _ in progs[pid]) else ()):
                explore(sh, lab, sched, progs[pid], min(spec["bound"], 2), min(spec["cap"], 400), pid, variant)
                sh.count("variant_programs")
        sh.count("programs_fully_enumerated_within_bound", complete)
        sh.count("distinct_interleavings", len(TRACES))
    elif part == "stress":
        run_stress(sh, spec["trials"])
    else:
        run_manual(sh, spec["maxlen"])


def finalize(tier, merged):
    c = merged["counters"]
    inc = []
    for k in ("interleavings_run", "schedules_completed", "writes_replayed", "stress_trials", "manual_frames"):
        if not c.get(k):
            inc.append("counter %s is zero" % k)
    return {"inconclusive": inc, "coverage": {"interleavings": c.get("distinct_interleavings", 0),
                                               "interleavings_note": "distinct (program, scheduler trace) pairs executed under the deterministic scheduler"}}


def replay(sh, case):
    repo.activate()
    if "schedule" in case:
        from rv.instruments import sched

        sched.install()
        lab = Lab(sched)
        program = [tuple(s) for s in case["program"]]
        res = run_schedule(lab, sched, program, case["schedule"], variant=case.get("variant", "ansi"))
        judge(sh, res, program, case)
    else:
        sh.inconclusive_because("stress / manual replay: rerun the check with the same VERIF_SEED")
