"""C20 - error traces always render and show the real message and failing line.

Boundary recorder: the text written by ExceptionTrace(e).render(io, simple) on
a buffered IO (plain and forced ANSI) at each verbosity, UTF-8 on/off; and
Highlighter().highlighted_lines(src) rendered through a plain formatter over a
corpus of real Python files.  Generated modules are written under unique file
names (the libraries cache file contents per file name at class level).
"""
import importlib.util
import io as _io
import os
import re
import shutil
import sys
import tempfile
import tokenize
import traceback

from rv import repo

PROPERTY = "C20"
LEVEL = "exploration"
EXHAUSTIVE = False
RULE = (
    "generated modules (failing line first / middle / last in the file, inside nested and tab-indented functions, after "
    "multi-line strings, bracketed and backslash continuations, with comments, non-ASCII, markup-like text, very long lines; "
    "empty file; file deleted after import; module under a path that spells style markup; modules stored in Latin-1, cp1251, koi8-r or iso-8859-7 with their coding cookie; callers whose call line opens a multi-line statement with markup-like arguments; code objects naming an existing non-Python file; exec-compiled source-less code under 10 file names (markup-like: '</error>', '<b>', 'a</info>b', ...), as the failing or as a middle frame; failure while importing) x statements {raise "
    "ValueError/KeyError/custom, 1/0, assert, raise ... from} x messages {plain, multi-line, non-ASCII, balanced / opening / "
    "closing / crossed style tags, escaped tag, 5 kB, empty} x exception object {as raised; every third case re-raised as one of 19 unusual types: providing a solution (5 title/description/link texts, rendered with a solution-provider repository), being a solution, KeyboardInterrupt / SystemExit subclasses, ExceptionGroup, OSError with file name, UnicodeDecodeError, SyntaxError, class names made with type() (markup-like, non-ASCII), overridden __str__, with notes, without / with two arguments} x recursion depth 1-60 (direct and mutual) x verbosity x UTF-8 "
    "on/off x simple/full x ANSI/plain x ignore pattern. Clauses: render never raises; class name and message present "
    "(markup and whitespace aside); the final snippet numbers lines consecutively, marks exactly the failing line "
    "(= tb_lineno) and shows every line made of single-line tokens verbatim; ignored files absent from the stack listing "
    "unless debug. Highlighter alone over every .py in the repository, 300 standard-library modules and the generated "
    "Also: exceptions that were never raised; messages and names ending in 2-4 backslashes; comment lines ending in a backslash; a continuation line holding only a backslash; solution texts that are not valid markup. "
    "modules. non-trivial = exception with a file-backed failing frame below depth 1 or a markup / multi-line message; "
    "distinct by (source shape, position, statement, message class, verbosity, flags)."
)
BOUND = {"quick": "about 4500 renders + highlighter over the repository's own 200 files", "thorough": "250000 renders + highlighter over repository, tests and 300 standard-library modules"}
ASSUMPTIONS = [
    "'message present' compares after removing style tags and backslash escapes from both sides and collapsing whitespace",
    "a line is 'made of single-line tokens' when Python's tokenize reports no token spanning several lines on it",
]

SGR = re.compile("\x1b\\[[0-9;]*m")
TAGLIKE = re.compile(r"(?is)<(([a-z][a-z0-9,_=;-]*)|/([a-z][a-z0-9,_=;-]*)?)>")
SNIP = re.compile(r"^\s*(?:(→|>)\s)?\s*(\d+)(│|\|) ?(.*)$")

MESSAGES = {
    "plain": "something went wrong", "multiline": "first line\nsecond line\n  third", "unicode": "échec: 失敗 ✓",
    "balanced": "a <b>bold</b> word", "opening": "an <info>unclosed tag", "closing": "a stray </info> tag", "crossed": "<b>crossed</info> tags",
    "escaped": "an \\<b> escaped tag", "long": "word " * 1000, "empty": "", "anyclose": "closing </> nothing", "lt": "1 < 2 and 3 > 2",
    "unknown": "<foo>unknown</foo> tag", "inline": "<fg=red>red</> text",
    "longword": "no such file: /" + "very-long-path-component/" * 12 + "file.txt and " + "Z" * 300,
    "continued": "pip install \\\n    --no-deps demo", "backslashes": "path C:\\temp\\new and \\\\server", "ends-backslash": "directory C:\\temp\\",
    "ends-2-backslashes": "share not found: \\\\", "ends-3-backslashes": "three \\\\\\", "ends-4-backslashes": "unc prefix \\\\\\\\",
    "only-backslashes": "\\\\",
}
LINES_SINGLE = [
    "x = 1", "# a comment with <b>markup</b> in it", "s = 'text <info>x</info> y'", "t = \"</info> unbalanced close\"", "u = 'é語 ünï'",
    "v = [1, 2,   3]  # odd   spacing", "w = {'a': 1, 'b': (2, 3)}", "if x: y = 2", "z = x if x else 3", "def g(a, b=2): return a",
    "long_name = " + " + ".join("%d" % i for i in range(60)), "lam = lambda q: q  # <fg=red>", "n = 0x1F + 1e3 - 2j", "b = b'bytes'",
    "f = f'{x!r:>{10}}'", "x = 1\t# tab before comment", "r = r'\\d+<b>'", "pass", "", "g2 = '<b></info>'", "k = x<y>z if False else 0",
    "class C(object): pass", "c1 = 1  # path C:\\", "# only a comment ending in two \\\\", "c2 = 's'  # <b> and a backslash \\", "q = '''one line triple'''", "y = 2", "e = '</>'", "caf = '\u00fcber se\u00f1or \u00df'  # caf\u00e9",
]
BLOCKS_MULTI = [
    ["doc = '''first", "second <b>line</b>", "third'''"],
    ["lst = [1,", "       2,", "       3]"],
    ["total = 1 + \\", "    2"],
    ["lone = 1 + \\", "\\", "    2"],  # a continuation line that holds nothing but the backslash
    ["d = {", "    'k': 'v',", "}"],
    ["call = max(1,", "           2)  # trailing"],
    ['fs = f"""Report', "for", "{x}", '"""'],
    ["ff = '''page one\x0cpage two", "second part", "end'''"],
    ['nel = """a\x85b', 'c"""'],
    ["ls = \'\'\'a\u2028b", "c\'\'\'"],
]
STATEMENTS = {
    "raise-value": "raise ValueError(MSG)", "raise-key": "raise KeyError(MSG)", "zero": "1/0", "assert": "assert False, MSG",
    "custom": "raise Custom(MSG)", "chain": "raise RuntimeError(MSG) from ValueError('cause')", "index": "[][1]", "attr": "None.missing",
}
HEADER = ["class Custom(Exception):", "    code = 7", "MSG = None", "x = 0; y = 1; z = 2"]


def gen_module(rng):
    """Returns dict(lines, fail_line(1-based), entry or None (fails at import), shape)"""
    stmt_kind = rng.choice(sorted(STATEMENTS))
    stmt = STATEMENTS[stmt_kind]
    pos = rng.choice(["first", "middle", "middle", "middle", "last", "nested", "tabs", "import"])
    lines = []

    def filler(k, indent=""):
        out = []
        for _ in range(k):
            if rng.random() < 0.25:
                out += [indent + l for l in rng.choice(BLOCKS_MULTI)]
            else:
                out.append((indent + rng.choice(LINES_SINGLE)).rstrip() if rng.random() < 0.9 else "")
        return out

    if pos == "first":
        lines = [stmt.replace("MSG", "'boom at line one'").replace("Custom", "ValueError") + "  #FAIL"] + filler(rng.randint(0, 6))
        entry = None
    elif pos == "import":
        lines = HEADER + filler(rng.randint(0, 8)) + ["MSG = 'raised while importing'", stmt + "  #FAIL"] + filler(rng.randint(0, 3))
        entry = None
    else:
        lines = HEADER + filler(rng.randint(0, 8) if rng.random() < 0.8 else rng.randint(40, 1200))
        if pos == "nested":
            lines += ["def fail(*a):", "    def inner(n):"] + filler(rng.randint(0, 4), "        ") + ["        " + stmt + "  #FAIL"] + filler(rng.randint(0, 5), "        ")
            lines += ["    return inner(3)"]
        elif pos == "tabs":
            lines += ["def fail(*a):"] + filler(rng.randint(0, 4), "\t") + ["\tif True:", "\t\t" + stmt + "  #FAIL"] + filler(rng.randint(0, 5), "\t")
        else:
            lines += ["def fail(*a):"] + filler(rng.randint(0, 6), "    ") + ["    " + stmt + "  #FAIL"]
            if pos != "last":
                lines += filler(rng.randint(0, 6), "    ") + filler(rng.randint(0, 4))
        entry = "fail"
        if rng.random() < 0.4:
            # a caller whose call line is an unfinished statement (arguments / brackets continue on the next lines)
            lines += rng.choice([
                ["def outer():", "    return fail(", "    )"],
                ["def outer():", "    return {", "        'k': fail(),", "    }"],
                ["def outer():", "    value = [fail()", "             for _ in range(1)]", "    return value"],
                # the call line is the first line of a multi-line statement and carries markup-like text
                ["def outer():", "    return fail(\"<error>\", \"</b>\", (", "        1,", "    ))"],
                ["def outer():", "    return fail('</info>', [", "        '<b>',", "    ])"],
            ])
            entry = "outer"
    fail_line = next(i for i, l in enumerate(lines) if l.endswith("#FAIL")) + 1
    latin1 = False
    encoding = None
    if rng.random() < 0.3:
        # a file whose non-ASCII characters all fit one byte in Latin-1 (decoding guesses must not turn them into something else)
        lines = ["".join(c if ord(c) < 256 else "\u00e9" for c in l) for l in lines]
        if rng.random() < 0.3:
            # ... stored in that encoding, with the coding cookie as the first line
            latin1 = True
            encoding = rng.choice(["latin-1", "latin-1", "cp1251", "koi8-r", "iso-8859-7"])
            if encoding != "latin-1":
                # another one-byte encoding: its letters are not Latin-1 letters
                letter = {"cp1251": "\u0436", "koi8-r": "\u044f", "iso-8859-7": "\u03bb"}[encoding]
                lines = ["".join(c if ord(c) < 128 else letter for c in l) for l in lines]
            lines.insert(0, "# -*- coding: %s -*-" % encoding)
            fail_line += 1
            lines.append("# caf\u00e9" if encoding == "latin-1" else "# " + letter * 4)
    text = "\n".join(lines) + ("" if (pos == "last" or rng.random() < 0.2) else "\n")
    return dict(source=text, fail_line=fail_line, entry=entry, shape=(pos, stmt_kind, len(lines)), stmt=stmt_kind, pos=pos, latin1=latin1, encoding=encoding)


def single_token_lines(source):
    """Set of 1-based line numbers not touched by any multi-line token, or None if tokenize fails."""
    multi = set()
    try:
        for tok in tokenize.generate_tokens(_io.StringIO(source).readline):
            if tok.start[0] != tok.end[0] and tok.type not in (tokenize.NEWLINE, tokenize.NL, tokenize.ENDMARKER, tokenize.DEDENT, tokenize.INDENT):
                multi.update(range(tok.start[0], tok.end[0] + 1))
    except (tokenize.TokenError, IndentationError, SyntaxError):
        return None
    n = source.count("\n") + 1
    return set(range(1, n + 1)) - multi


def normalise(s):
    s = SGR.sub("", s)
    s = TAGLIKE.sub("", s)
    s = s.replace("\\", "")
    return re.sub(r"\s+", " ", s).strip()


class Env(object):
    def __init__(self, workdir):
        from clikit.formatter import AnsiFormatter, PlainFormatter
        from clikit.io import BufferedIO
        from clikit.ui.components.exception_trace import ExceptionTrace, Highlighter

        self.AnsiFormatter, self.PlainFormatter, self.BufferedIO = AnsiFormatter, PlainFormatter, BufferedIO
        self.ExceptionTrace, self.Highlighter = ExceptionTrace, Highlighter
        self.workdir = workdir
        self.counter = 0
        self.variants = exception_variants(self)
        os.makedirs(os.path.join(workdir, "ignoredpkg"), exist_ok=True)
        with open(os.path.join(workdir, "ignoredpkg", "relay.py"), "w") as f:
            f.write("def relay(cb, *a):\n    return cb(*a)\n\n\ndef relay2(cb, *a):\n    return relay(cb, *a)\n")
        spec = importlib.util.spec_from_file_location("c20_relay", os.path.join(workdir, "ignoredpkg", "relay.py"))
        self.relay = importlib.util.module_from_spec(spec)
        spec.loader.exec_module(self.relay)

    def write_module(self, source, odd_path=False, latin1=False, encoding="latin-1"):
        self.counter += 1
        path = os.path.join(self.workdir, "m%06d_%d.py" % (self.counter, os.getpid()))
        if latin1:
            # a source file in Latin-1 with its coding cookie (legal Python; not decodable as UTF-8)
            with open(path, "wb") as f:
                f.write(source.encode(encoding))
            return path
        if odd_path:
            # a directory and a file name that together spell style markup in the path: .../a</info>b_<n>.py, .../x<b>/m.py
            d, f = [("a<", "info>b_%06d.py"), ("x<b>", "m%06d.py"), ("<error>", "e%06d.py"), ("y<", "error>%06d.py"), ("z<", ">%06d.py")][self.counter % 5]
            os.makedirs(os.path.join(self.workdir, d), exist_ok=True)
            path = os.path.join(self.workdir, d, f % self.counter)
        with open(path, "w", encoding="utf-8") as f:
            f.write(source)
        return path


def raise_from(env, mod_case, message, depth, mode, rng):
    """Runs the generated module so that it fails; returns (exception, path, source_available)."""
    path = env.write_module(mod_case["source"], odd_path=(mode == "odd-path"), latin1=bool(mod_case.get("latin1")), encoding=mod_case.get("encoding") or "latin-1")
    name = "c20_m%d" % env.counter
    spec = importlib.util.spec_from_file_location(name, path)
    mod = importlib.util.module_from_spec(spec)
    available = True
    try:
        if mod_case["entry"] is None:
            spec.loader.exec_module(mod)
            return None, path, available
        spec.loader.exec_module(mod)
        mod.MSG = message
        fn = getattr(mod, mod_case["entry"])
        if mode == "deleted":
            os.unlink(path)
            available = False

        def recurse(n):
            if n <= 0:
                return fn()
            return recurse(n - 1)

        def alternate(n):
            if n <= 0:
                return fn()
            if n % 2:
                return alternate(n - 1)  # first call site
            return alternate(n - 1)  # second call site

        def ping(n):
            if n <= 0:
                return fn()
            return pong(n - 1)

        def pong(n):
            return ping(n - 1)

        if mode == "relay":
            env.relay.relay2(recurse, depth)
        elif mode == "mutual":
            ping(depth)
        elif mode == "two-sites":
            alternate(depth)
        else:
            recurse(depth)
    except BaseException as e:
        return e, path, available
    return None, path, available


SOURCELESS_NAMES = ["<generated-no-file>", "<string>", "</error>", "<b>", "a</info>b", "</>", "<fg=red>x", "no-such-file.py", "<info>", "ends\\", "ends-two\\\\", "ends-four\\\\\\\\"]


NOT_PYTHON = "<html>\n{{ it's broken \'\'\' }}\n<b>(\n</html>\n"


def exec_sourceless(message, kind, filename="<generated-no-file>", middle=False):
    src = "def fail(msg):\n    raise %s(msg)\n\n\ndef relay(cb, *a):\n    return cb(*a)\n" % kind
    ns = {}
    exec(compile(src, filename, "exec"), ns)

    def inner(m):
        raise ValueError(m)

    try:
        if middle:
            ns["relay"](inner, message)  # the source-less frame is not the failing one
        else:
            ns["fail"](message)
    except BaseException as e:
        return e
    return None


SOLUTION_TEXTS = [
    ("Install it.", "Run the installer", []),
    ("Title with <b>markup</b>", "a stray </info> and an <info>unclosed tag\nsecond line", ["https://example.org/a", "https://example.org/<b>"]),
    ("", "", []),
    ("ends with backslash\\", "description \\", ["link\\"]),
    ("1 < 2", "échec: 失敗 ✓ " * 40, ["l1", "l2", "l3"]),
    ("remove the </error> tag", "plain description", []),
    ("Title", "see", ["https://example.org/</comment>", "https://example.org/<b>"]),
    ("<b>crossed</info> title", "<b>crossed</info> description", ["<b>crossed</info>"]),
    ("Use <b>--force</b>", "The <fg=default;options=bold>python</> property", []),
]


def exception_variants(env):
    """Exception objects of unusual types: (label, factory(message) -> exception, uses_solutions)."""
    from crashtest.contracts.base_solution import BaseSolution
    from crashtest.contracts.provides_solution import ProvidesSolution
    from crashtest.contracts.solution import Solution

    def provides(k):
        title, desc, links = SOLUTION_TEXTS[k]

        class Solved(Exception, ProvidesSolution):
            @property
            def solution(self):
                s = BaseSolution(title, desc)
                s._links = list(links)
                return s

        return Solved

    class IsSolution(Exception, Solution):
        solution_title = "Fix <fg=red>it</>."
        solution_description = "Do this\nthen that"
        documentation_links = ["https://example.org/doc"]

    class Interrupted(KeyboardInterrupt):
        pass

    class StrOverride(Exception):
        def __str__(self):
            return "overridden: %s" % (self.args[0],)

    def noted(m):
        e = ValueError(m)
        e.add_note("a note with <b>markup")
        return e

    out = [("provides-%d" % k, provides(k), True) for k in range(len(SOLUTION_TEXTS))]
    out += [
        ("is-solution", IsSolution, True), ("keyboard-interrupt", Interrupted, False), ("system-exit", SystemExit, False),
        ("group", lambda m: ExceptionGroup(m, [ValueError("inner"), KeyError("k")]), False),
        ("oserror", lambda m: OSError(2, m, "/no/such/<b>file"), False),
        ("unicode-error", lambda m: UnicodeDecodeError("utf-8", b"\xff", 0, 1, m), False),
        ("syntax-error", lambda m: SyntaxError(m, ("file.py", 3, 1, "x ==\n")), False),
        ("odd-class-name", type("Odd<b>Name", (Exception,), {}), False), ("unicode-class-name", type("Ünï\u00e7ode", (Exception,), {}), False),
        ("str-override", StrOverride, False), ("noted", noted, False), ("no-args", lambda m: RuntimeError(), False),
        ("two-args", lambda m: ValueError(m, 42), False), ("stop-iteration", StopIteration, False),
    ]
    return out


def render(env, exc, verbosity, ansi, utf8, simple, ignore=None, solutions=False):
    io = env.BufferedIO("", env.AnsiFormatter(forced=True) if ansi else env.PlainFormatter(), supports_utf8=utf8)
    io.set_verbosity(verbosity)
    if solutions:
        from crashtest.solution_providers.solution_provider_repository import SolutionProviderRepository

        t = env.ExceptionTrace(exc, SolutionProviderRepository())
    else:
        t = env.ExceptionTrace(exc)
    if ignore:
        t.ignore_files_in(ignore)
    t.render(io, simple)
    return io.fetch_output() + io.fetch_error()


def ends_in_comment(line):
    """Whether the last visible character of a source line belongs to a comment token."""
    try:
        for tok in tokenize.generate_tokens(_io.StringIO(line + "\n").readline):
            if tok.type == tokenize.COMMENT and tok.end[1] >= len(line.rstrip()):
                return True
    except (tokenize.TokenError, IndentationError, SyntaxError):
        pass
    return False


def classify(clause, source, shown_line_src=None, shown=None):
    """The known finding is the mechanism, not 'any line ending in a backslash': a continuation backslash (one that
    belongs to no token, so not the end of a comment) that is missing from a line otherwise shown as it is."""
    if clause != "snippet-verbatim" or shown_line_src is None:
        return None
    want = shown_line_src.rstrip()
    if not want.endswith("\\") or ends_in_comment(want):
        return None
    if shown is not None and shown.rstrip() != want[:-1].rstrip():
        return None
    return "continuation-backslash-not-shown"


def judge_render(sh, env, exc, case, source, fail_line, path, available):
    msg = str(exc)
    cls = type(exc).__name__
    stl = single_token_lines(source) if (source is not None and available) else None
    for verbosity in case["verbosities"]:
        for simple in (False, True):
            rec = dict(case, verbosity=verbosity, simple=simple)
            sh.case((case["shape"], case["msg_class"], verbosity, simple, case["ansi"], case["utf8"], case["mode"], case["depth"] > 1),
                    (case["depth"] >= 1 and available and source is not None) or case["msg_class"] not in ("plain", "empty"))
            try:
                out = render(env, exc, verbosity, case["ansi"], case["utf8"], simple, solutions=case.get("solutions", False))
                if case.get("solutions") and not simple:
                    sh.count("solution_renders")
            except Exception as e:
                tb = traceback.extract_tb(e.__traceback__)[-1]
                sh.violate("render-raises", rec, "render(simple=%s, verbosity=%d) raised %r at %s:%s" % (simple, verbosity, e, os.path.basename(tb.filename), tb.lineno))
                continue
            sh.count("renders")
            text = SGR.sub("", out)
            # the part of the report that shows the message: everything in simple mode, the lines between the
            # class name and the 'at <file>' line in full mode
            part = text
            if not simple:
                ls = text.split("\n")
                a = next((i for i, l in enumerate(ls) if l.strip() == cls), None)
                b = next((i for i, l in enumerate(ls) if a is not None and i > a and l.strip().startswith("at ")), len(ls))
                part = "\n".join(ls[a:b]) if a is not None else ""
            if "\\<" in part and "\\" not in msg and "\\" not in cls:
                sh.violate("markup-leak", rec, "the message is shown with a backslash before '<': %r" % (re.findall(r".{0,20}\\<.{0,10}", part)[:2],))
            if "<" not in msg and re.search(r"</?(b|error)>", part):
                sh.violate("markup-leak", rec, "the report shows style markup that is not part of the message %r: %r" % (msg[-30:], re.findall(r".{0,20}</?(?:b|error)>", part)[:2]))
            if normalise(msg) not in normalise(out):
                sh.violate("message-missing", rec, "message %r not found in the %s report %r" % (normalise(msg)[:80], "simple" if simple else "full", normalise(out)[:200]))
            if simple:
                continue
            if cls not in text and normalise(cls) not in normalise(text):  # a class name made with type() may itself look like markup
                sh.violate("class-missing", rec, "class name %s not in the report" % cls)
            if source is None or not available:
                continue
            lines = text.split("\n")
            # ---- snippets of the stack listing (debug verbosity): each marks its own frame's line ----
            if verbosity == 4:
                i = 0
                while i < len(lines):
                    m = re.match(r"^\s*(\d+)\s+(\S.*):(\d+) in (\S+)\s*$", lines[i])
                    i += 1
                    if not m:
                        continue
                    frame_line = int(m.group(3))
                    snip = []
                    while i < len(lines):
                        sm = SNIP.match(lines[i])
                        if not sm:
                            break
                        snip.append((sm.group(1), int(sm.group(2))))
                        i += 1
                    if not snip:
                        continue
                    sh.count("stack_frame_snippets")
                    nums = [x[1] for x in snip]
                    marked = [x[1] for x in snip if x[0]]
                    if nums != list(range(nums[0], nums[0] + len(nums))) or marked != [frame_line]:
                        sh.violate("frame-snippet-mark", rec, "stack entry %s:%d in %s: snippet shows lines %r and marks %r" % (
                            os.path.basename(m.group(2)), frame_line, m.group(4), nums, marked))
                        break
            # ---- the final snippet -----------------------------------------------------
            at = None
            for i, l in enumerate(lines):
                m = re.match(r"^\s*at (.+):(\d+) in (\S+)\s*$", l)
                if m and os.path.basename(path) in m.group(1):
                    at = (i, int(m.group(2)))
            if at is None:
                sh.violate("snippet-missing", rec, "no 'at <file>:<line>' line for the failing file in %r" % text[-300:])
                continue
            if at[1] != fail_line:
                sh.violate("snippet-line", rec, "report says line %d, the failing line is %d" % (at[1], fail_line))
                continue
            snippet = []
            for l in lines[at[0] + 1:]:
                m = SNIP.match(l)
                if not m:
                    if snippet:
                        break
                    continue
                snippet.append((m.group(1), int(m.group(2)), m.group(4)))
            sh.count("snippets")
            if not snippet:
                sh.violate("snippet-missing", rec, "no numbered snippet lines after the 'at' line")
                continue
            nums = [s[1] for s in snippet]
            if nums != list(range(nums[0], nums[0] + len(nums))):
                sh.violate("snippet-numbers", rec, "line numbers not consecutive: %r" % nums)
                continue
            marked = [s[1] for s in snippet if s[0]]
            if marked != [fail_line]:
                sh.violate("snippet-mark", rec, "marked line(s) %r, failing line %d (shown %r)" % (marked, fail_line, nums))
                continue
            src_lines = source.split("\n")
            for mark, num, shown in snippet:
                sh.count("snippet_lines")
                if num > len(src_lines):
                    if shown.strip():
                        sh.violate("snippet-verbatim", rec, "line %d shown as %r is beyond the end of the file" % (num, shown))
                    continue
                if stl is not None and num in stl:
                    want = src_lines[num - 1]
                    if shown.rstrip() != want.rstrip():
                        sh.violate("snippet-verbatim", rec, "line %d shown as %r, source line is %r" % (num, shown, want), classify("snippet-verbatim", source, want, shown))
                        break


def judge_ignore(sh, env, rng, case_base):
    mc = gen_module(rng)
    while mc["entry"] is None:
        mc = gen_module(rng)
    exc, path, available = raise_from(env, mc, "ignored frames", 2, "relay", rng)
    if exc is None:
        return
    pattern = r".*[/\\]ignoredpkg[/\\].*"
    env.ignore_round = getattr(env, "ignore_round", 0) + 1
    other = r".*[/\\]no-such-directory[/\\].*"
    # a matching and a non-matching pattern one after the other (order alternates): the decision about a file
    # must follow the pattern of the trace being rendered, not an earlier render of this process
    order = ((pattern, True), (other, False)) if env.ignore_round % 2 else ((other, False), (pattern, True))
    for pat, hides in order:
        rec = {"kind": "ignore-sequence", "pattern": pat, "source": mc["source"]}
        sh.case(("ignore-seq", env.ignore_round % 2, hides, mc["shape"]), True)
        try:
            out = SGR.sub("", render(env, exc, 1, False, True, False, pat))
        except Exception as e:
            sh.violate("render-raises", rec, "render with ignore pattern raised %r" % (e,))
            continue
        sh.count("ignore_renders")
        if ("ignoredpkg" in out) == hides:
            sh.violate("ignore-filter", rec, "pattern %r: frames under ignoredpkg/ are %s at verbose verbosity (another pattern was used earlier in this process)" % (
                pat, "listed" if hides else "missing"))
    for verbosity in (1, 2, 4):
        rec = {"kind": "ignore", "verbosity": verbosity, "source": mc["source"]}
        sh.case(("ignore", verbosity, mc["shape"]), True)
        try:
            out = SGR.sub("", render(env, exc, verbosity, False, True, False, pattern))
            ref = SGR.sub("", render(env, exc, verbosity, False, True, False, None))
        except Exception as e:
            sh.violate("render-raises", rec, "render with ignore pattern raised %r" % (e,))
            continue
        sh.count("ignore_renders")
        if "ignoredpkg" not in ref:
            sh.inconclusive_because("reference render does not list the relay frames: ignore clause undecided")
            continue
        shown = "ignoredpkg" in out
        if verbosity == 4 and not shown:
            sh.violate("ignore-debug", rec, "at debug verbosity the ignored frames must be listed again")
        if verbosity in (1, 2) and shown:
            sh.violate("ignore-filter", rec, "frames under the ignored path are listed at verbosity %d" % verbosity)


def run_renders(sh, env, n):
    rng = sh.rng
    for i in range(n):
        mc = gen_module(rng)
        msg_class = rng.choice(sorted(MESSAGES))
        message = MESSAGES[msg_class]
        mode = rng.choice(["plain", "plain", "relay", "mutual", "deleted", "two-sites", "two-sites", "odd-path"])
        depth = rng.choice([0, 1, 1, 2, 5, 30, 60])
        case = dict(kind="module", source=mc["source"], shape=mc["shape"], msg_class=msg_class, mode=mode, depth=depth, ansi=rng.random() < 0.5, utf8=rng.random() < 0.7,
                    verbosities=[rng.choice([0, 1, 2, 4])] if i % 4 else [0, 1, 2, 4])
        exc, path, available = raise_from(env, mc, message, depth, mode, rng)
        if exc is None:
            sh.count("modules_that_did_not_fail")
            continue
        tb_line = traceback.extract_tb(exc.__traceback__)[-1]
        if os.path.basename(tb_line.filename) != os.path.basename(path) or tb_line.lineno != mc["fail_line"]:
            sh.count("generator_line_mismatch")
            continue
        if mc["entry"] is None:
            case["msg_class"] = "plain"
        elif i % 3 == 1:
            # the same failure reported through an exception object of an unusual type (same traceback)
            label, factory, uses = rng.choice(env.variants)
            try:
                exc = factory(message).with_traceback(exc.__traceback__)
            except Exception as e:
                sh.note("variant %s could not be built: %r" % (label, e))
            else:
                case["variant"], case["solutions"] = label, uses
                case["shape"] = tuple(case["shape"]) + (label,)
                sh.count("variant_cases")
        judge_render(sh, env, exc, case, mc["source"], mc["fail_line"], path, available)
        if i < 1:
            sh.sample({"source": mc["source"][:600], "fail_line": mc["fail_line"], "message": message[:60], "depth": depth, "mode": mode})
        if i % 10 == 0:
            # source-less code and empty / odd files
            kind = rng.choice(["ValueError", "KeyError", "RuntimeError"])
            fname = SOURCELESS_NAMES[(i // 10) % len(SOURCELESS_NAMES)]
            if (i // 10) % 4 == 3:
                # the code object names an existing file that is not Python (a template engine does that)
                fname = os.path.join(env.workdir, "template_%d.html" % i)
                with open(fname, "w") as fh:
                    fh.write(NOT_PYTHON)
                sh.count("frames_in_non_python_files")
            middle = (i // 10) % 3 == 2
            if middle:
                kind = "ValueError"
            e2 = exec_sourceless(message, kind, fname, middle)
            c2 = dict(kind="sourceless", shape=("exec", kind, fname, middle), msg_class=msg_class, mode="exec", depth=0, ansi=case["ansi"], utf8=case["utf8"], verbosities=[0, 1, 2, 4],
                      source="", filename=fname, sourceless_frame="middle" if middle else "last")
            judge_render(sh, env, e2, c2, None, None, fname, False)
            sh.count("sourceless_cases")
        if i % 25 == 0:
            judge_ignore(sh, env, rng, case)


def corpus_files(tier):
    out = []
    roots = [os.path.join(repo.REPO, "src")]
    if tier == "thorough":
        roots.append(os.path.join(repo.REPO, "tests"))
    for root in roots:
        for d, _, fs in os.walk(root):
            for f in sorted(fs):
                if f.endswith(".py"):
                    out.append(os.path.join(d, f))
    if tier == "thorough":
        import sysconfig

        std = sysconfig.get_paths()["stdlib"]
        names = sorted(f for f in os.listdir(std) if f.endswith(".py"))[:300]
        out += [os.path.join(std, f) for f in names]
    return out


def judge_highlight(sh, env, source, label):
    rec = {"kind": "highlight", "file": label}
    stl = single_token_lines(source)
    if stl is None:
        sh.count("corpus_untokenizable")
        return
    taglike = bool(TAGLIKE.search(source))
    sh.case(("hl", label), taglike or "\\\n" in source)
    try:
        lines = env.Highlighter().highlighted_lines(source)
        plain = env.PlainFormatter()
        # formatted behind a one-character prefix, as the report does (line number and delimiter come first): the
        # third-party formatter looks at message[-1] for a tag at offset 0, so a bare line that starts with a tag and
        # ends in a backslash would be misread by the harness, not by the report
        shown = [plain.format("|" + l)[1:] for l in lines]
    except Exception as e:
        sh.violate("highlighter-raises", rec, "highlighter raised %r on %s" % (e, label))
        return
    sh.count("files_highlighted")
    norm = source.replace("\r\n", "\n").replace("\r", "\n")
    src_lines = norm.split("\n")
    if len(shown) < len([l for l in src_lines if True]) - 1:
        sh.violate("highlighter-lines", rec, "%d lines produced for %d source lines" % (len(shown), len(src_lines)))
        return
    bad = 0
    for i, want in enumerate(src_lines):
        if (i + 1) not in stl or i >= len(shown):
            continue
        sh.count("corpus_lines_compared")
        if shown[i].rstrip() != want.rstrip():
            key = classify("snippet-verbatim", source, want, shown[i])
            sh.violate("highlight-verbatim", dict(rec, line=i + 1), "%s line %d shown as %r, source %r" % (label, i + 1, shown[i][:120], want[:120]), key)
            bad += 1
            if bad > 5:
                break


def plan(tier, seed):
    if tier == "quick":
        return [{"part": "renders", "n": 150, "first": k == 0} for k in range(8)] + [{"part": "corpus", "slice": [0, 1]}]
    return [{"part": "renders", "n": 4300, "first": k == 0} for k in range(14)] + [{"part": "corpus", "slice": [i, 2]} for i in range(2)]


def judge_never_raised(sh, env):
    """An exception object that was built but never raised (no traceback at all): still 'an exception of any origin'."""
    for msg_class in ("plain", "multiline", "unicode", "closing", "lt", "ends-backslash", "empty"):
        msg = MESSAGES[msg_class]
        for exc in (ValueError(msg), KeyError(msg), type("MadeUp", (Exception,), {})(msg)):
            cause = RuntimeError("cause, never raised either")
            exc.__cause__ = cause if msg_class == "plain" else None
            for verbosity in (0, 1, 2, 4):
                for simple in (False, True):
                    rec = {"kind": "never-raised", "type": type(exc).__name__, "msg_class": msg_class, "verbosity": verbosity, "simple": simple}
                    sh.case(("never-raised", type(exc).__name__, msg_class, verbosity, simple), True)
                    try:
                        out = render(env, exc, verbosity, False, True, simple)
                    except Exception as e:
                        sh.violate("render-raises", rec, "render of a never-raised exception raised %r" % (e,))
                        continue
                    sh.count("never_raised_renders")
                    text = SGR.sub("", out)
                    if normalise(str(exc)) not in normalise(text):
                        sh.violate("message-missing", rec, "message %r not found in the report %r of a never-raised exception" % (normalise(str(exc))[:60], text[:120]))
                    elif not simple and type(exc).__name__ not in text:
                        sh.violate("class-missing", rec, "class name %s not in the report %r of a never-raised exception" % (type(exc).__name__, text[:120]))


def run(sh, spec):
    repo.activate()
    work = tempfile.mkdtemp(prefix="c20_", dir=os.path.join(os.path.dirname(os.path.dirname(os.path.dirname(os.path.abspath(__file__)))), "out"))
    try:
        env = Env(work)
        if spec["part"] == "renders":
            if spec.get("first"):
                judge_never_raised(sh, env)
            run_renders(sh, env, spec["n"])
        else:
            files = corpus_files(sh.tier)
            i, n = spec["slice"]
            for f in files[i::n]:
                try:
                    with open(f, encoding="utf-8") as fh:
                        src = fh.read()
                except (UnicodeDecodeError, OSError):
                    continue
                judge_highlight(sh, env, src, os.path.relpath(f, "/"))
            for k in range(40 if sh.tier == "quick" else 400):
                mc = gen_module(sh.rng)
                judge_highlight(sh, env, mc["source"], "generated-%d" % k)
            for src, label in (("", "empty-file"), ("\n", "newline-only"), ("# only a comment", "comment-only"), ("x = 1", "no-trailing-newline")):
                judge_highlight(sh, env, src, label)
            sh.sample({"kind": "highlight", "files": len(files)})
    finally:
        shutil.rmtree(work, ignore_errors=True)


def finalize(tier, merged):
    c = merged["counters"]
    inc = []
    for k in ("renders", "snippets", "snippet_lines", "files_highlighted", "corpus_lines_compared", "sourceless_cases", "ignore_renders"):
        if not c.get(k):
            inc.append("counter %s is zero" % k)
    if c.get("generator_line_mismatch", 0) > c.get("renders", 0) // 10:
        inc.append("generator/traceback line mismatch too frequent: %r" % c.get("generator_line_mismatch"))
    return {"inconclusive": inc}


def replay(sh, case):
    sh.inconclusive_because("C20 replay: rerun the check with the same VERIF_SEED; the case record contains the generated source")
