"""C12 - listeners run by priority then registration order until propagation stops.

History monitor against a list model: registrations (event, priority, seq,
stops); every listener is a closure that logs its own invocation.
"""
import itertools

from rv import repo

PROPERTY = "C12"
LEVEL = "exploration"
EXHAUSTIVE = {"quick": True, "thorough": True}
RULE = (
    "operation alphabet (29): register(event in {a,b}, priority in {-1,0,5}, stops or not) = 12, dispatch(event in {a,b,c}) "
    "= 3, register a listener that itself registers another listener when called (event a/b) = 2, query(get_listeners(a), "
    "get_listeners(b), get_listeners()) = 3 (queries fill the dispatcher's sort cache, so they are part of the history), "
    "dispatch without an event object (a/b) = 2, register a listener that raises (its exception ends the dispatch and reaches the caller; the dispatcher must "
    "work as before afterwards) = 1, register a bound method of an object nobody else refers to (plain / high priority and stopping) = 2, register a listener that registers another one at a higher priority than its own = 1, dispatch with an Event subclass that overrides stop_propagation / is_propagation_stopped with its own state = 1, register the first callable again for the other event at priority 5 / -1 = 2. Application part: listeners for the CONFIG, PRE_RESOLVE and PRE_HANDLE events registered through ApplicationConfig / DefaultApplicationConfig at several priorities, application built and run. Scale part: 1350 listeners on one event (1300 at one priority) and 60 dispatches in a row ending in a listener's exception. "
    "Every sequence up to length L is run from scratch on a new EventDispatcher: each dispatch's invocation log is compared "
    "with the model, and after the last step every query (has_listeners per event and overall, get_listeners per event and "
    "overall, get_listener_priority of every listener for every event) is compared. Random sequences of length 6-40 on top. "
    "Also: odd event names (empty, blank, digit, dotted, non-ASCII, 'None', case pair); application-level events whose listeners read the event payload. "
    "non-trivial = >=2 registrations for one event followed by a dispatch of it, with a registration after an earlier "
    "dispatch/query of that event or a stopping listener; distinct by operation tuple."
)
BOUND = {
    "quick": "all 732541 sequences of length <= 4 over 29 operations; 3000 random sequences of length 6-40",
    "thorough": "all 21243690 sequences of length <= 5 over 29 operations; 400000 sampled of length 6; 100000 random of length 7-40",
}
ASSUMPTIONS = [
    "whether a listener registered during a dispatch also joins the dispatch in progress is not stated and not asserted; it must take part in the next one",
]

EVENTS = ("a", "b", "c")
OPS = []
for ev in ("a", "b"):
    for pr in (-1, 0, 5):
        for stops in (False, True):
            OPS.append(("reg", ev, pr, stops))
for ev in EVENTS:
    OPS.append(("dispatch", ev))
for ev in ("a", "b"):
    OPS.append(("reg-nested", ev))
OPS += [("query", "a"), ("query", "b"), ("query", None)]
# dispatch without an event object (the dispatcher makes one), a listener that raises, listeners that are bound methods
# of objects nobody else refers to
OPS += [("dispatch-default", "a"), ("dispatch-default", "b"), ("reg-raises", "a"), ("reg-method", "a", 0, False), ("reg-method", "a", 5, True)]
# a listener that, when called, registers another one for the same event at a HIGHER priority than its own;
# a dispatch with an event object of a subclass that keeps its own 'stopped' state behind the two public methods
OPS += [("reg-nested-high", "a"), ("dispatch-subclass", "a")]
# the callable registered first is registered again for the OTHER event, at another priority
OPS += [("reg-again", 5), ("reg-again", -1)]


class DispatchBudgetExceeded(BaseException):
    """Logical termination monitor: one dispatch called far more listeners than are registered."""


class ListenerFailed(Exception):
    """Raised by the 'raises' listeners: it ends the dispatch and reaches the caller."""


class Run(object):
    def __init__(self, Dispatcher, Event):
        self.d = Dispatcher()
        self.Event = Event
        self.model = []  # dicts: id, event, priority, seq, stops, nested
        self.log = []
        self.objs = {}
        self.seq = 0
        self.bad_args = []
        self.budget = 10 ** 9
        self.method_ids = set()

    def make(self, lid, stops, nested_event=None, raises=False, method=False, nested_priority=0):
        run = self

        def listener(event, event_name, dispatcher):
            run.log.append(lid)
            if len(run.log) > run.budget:
                raise DispatchBudgetExceeded()
            if dispatcher is not run.d or not isinstance(event_name, str):
                run.bad_args.append((lid, event_name))
            if nested_event is not None:
                run.register(nested_event, nested_priority, False)
            if raises:
                raise ListenerFailed(lid)
            if stops:
                event.stop_propagation()

        if method:
            class Subscriber(object):
                def on_event(self, event, event_name, dispatcher):
                    return listener(event, event_name, dispatcher)

            return Subscriber().on_event  # the only reference to the subscriber is the bound method itself
        return listener

    def register(self, ev, pr, stops, nested=None, raises=False, method=False, nested_priority=0):
        lid = len(self.model)
        fn = self.make(lid, stops, nested, raises, method, nested_priority)
        self.objs[lid] = fn if not method else None  # bound methods are compared by equality, and not kept alive here
        if method:
            self.method_ids.add(lid)
        self.model.append(dict(id=lid, event=ev, priority=pr, seq=self.seq, stops=stops, raises=raises))
        self.seq += 1
        self.d.add_listener(ev, fn, pr)
        return lid

    def ordered(self, ev):
        return sorted([m for m in self.model if m["event"] == ev], key=lambda m: (-m["priority"], m["seq"]))

    def expected_calls(self, ev, upto):
        out = []
        for m in self.ordered(ev):
            if m["id"] >= upto:
                continue
            out.append(m.get("calls_as", m["id"]))
            if m["stops"] or m.get("raises"):
                break
        return out

    def expect_failure(self, ev, upto):
        calls = self.expected_calls(ev, upto)
        return bool(calls) and bool(self.model[calls[-1]].get("raises"))  # (a re-registered callable shares the behaviour of its first registration)


def subclass_event(Event):
    class OwnStateEvent(Event):
        """Overrides both public methods consistently and keeps the state in its own attribute."""

        def __init__(self):
            Event.__init__(self)
            self.stopped_because = None

        def stop_propagation(self):
            self.stopped_because = "a listener asked for it"

        def is_propagation_stopped(self):
            return self.stopped_because is not None

    return OwnStateEvent()


def run_scale(sh, Dispatcher, Event):
    """Many listeners and many dispatches on one dispatcher: 1300 listeners at one priority between others, and a
    listener that raises in 60 dispatches in a row before the dispatcher is used normally again."""
    # -- many listeners ---------------------------------------------------------
    d = Dispatcher()
    log = []
    expected = []
    plan_ = [(1, 1300), (0, 40), (2, 3), (1, 5), (-1, 2)]
    seq = 0
    regs = []
    for pr, n in plan_:
        for _ in range(n):
            lid = seq
            seq += 1

            def listener(event, name, disp, lid=lid):
                log.append(lid)

            d.add_listener("big", listener, pr)
            regs.append((pr, lid))
    expected = [lid for pr, lid in sorted(regs, key=lambda x: (-x[0], x[1]))]
    record = {"kind": "scale", "listeners": plan_}
    sh.case(("scale", "many-listeners"), True)
    d.dispatch("big", Event())
    sh.count("dispatches")
    sh.count("listener_calls", len(log))
    if log != expected:
        k = next((i for i in range(min(len(log), len(expected))) if log[i] != expected[i]), min(len(log), len(expected)))
        sh.violate("dispatch-order", record, "with %d listeners the call at position %d is listener #%r, expected #%r (%d calls, %d expected)" % (
            len(regs), k, log[k] if k < len(log) else None, expected[k] if k < len(expected) else None, len(log), len(expected)))
    # -- many failing dispatches --------------------------------------------------
    d = Dispatcher()
    calls = []

    def failing(event, name, disp):
        calls.append("failing")
        raise ListenerFailed("always")

    d.add_listener("boom", failing, 0)
    d.add_listener("fine", lambda e, n, dd: calls.append("fine"), 0)
    record = {"kind": "scale", "failing_dispatches": 60}
    sh.case(("scale", "many-failures"), True)
    for i in range(60):
        try:
            d.dispatch("boom", Event())
        except ListenerFailed:
            pass
        except Exception as e:
            sh.violate("dispatch-raises", record, "dispatch #%d of an event whose listener raises: %r reached the caller instead of the listener's exception" % (i, e))
            return
    del calls[:]
    try:
        d.dispatch("fine", Event())
    except Exception as e:
        sh.violate("dispatch-raises", record, "after 60 dispatches that ended in a listener's exception, a normal dispatch raised %r" % (e,))
        return
    sh.count("dispatches", 61)
    if calls != ["fine"]:
        sh.violate("dispatch-order", record, "after 60 failed dispatches a normal dispatch called %r" % (calls,))


def run_odd_names(sh, Dispatcher, Event):
    """Event names are strings, any string: empty, blank, digits, dotted, non-ASCII, 'None'.  One listener per name (two
    for the first), every name dispatched twice: exactly the listeners of that name run, in order, and the queries agree."""
    names = ["", " ", "0", "a.b", "\u00e9v\u00e9nement", "None", "A", "a"]
    for rotation in range(len(names)):
        order = names[rotation:] + names[:rotation]
        d = Dispatcher()
        calls = []
        expect = {}
        for k, name in enumerate(order):
            for j in range(2 if k == 0 else 1):
                def listener(event, event_name, dispatcher, tag=(name, j)):
                    calls.append((tag, event_name))
                d.add_listener(name, listener, 5 if j else 0)
                expect.setdefault(name, []).append((name, j))
        for name in order:
            want = sorted(expect[name], key=lambda t: -5 if t[1] else 0)
            rec = {"kind": "odd-event-names", "registered": order, "dispatched": name}
            sh.case(("odd-names", rotation, name), True)
            for again in range(2):
                del calls[:]
                try:
                    d.dispatch(name, Event())
                except Exception as e:
                    sh.violate("dispatch-raises", rec, "dispatch(%r) raised %r" % (name, e))
                    break
                sh.count("odd_name_dispatches")
                if calls != [(t, name) for t in want]:
                    sh.violate("dispatch-order", rec, "dispatch(%r) called %r, expected the listeners %r of that name" % (name, calls, want))
                    break
            try:
                has, got = d.has_listeners(name), d.get_listeners(name)
            except Exception as e:
                sh.violate("query-raises", rec, "query for %r raised %r" % (name, e))
                continue
            if has is not True or not isinstance(got, list) or len(got) != len(want):
                sh.violate("query-get-listeners", rec, "has_listeners(%r) = %r, get_listeners(%r) = %r, %d listener(s) registered" % (name, has, name, got if not isinstance(got, dict) else sorted(got), len(want)))
        if d.has_listeners("never-registered") or d.get_listeners("never-registered"):
            sh.violate("query-get-listeners", {"kind": "odd-event-names"}, "an unknown event name has listeners")
    sh.tag("event_names", "empty, blank, digit, dotted, non-ASCII, 'None', case pair")


def run_application_events(sh):
    """The three events the application itself dispatches (CONFIG when it is built, PRE_RESOLVE and PRE_HANDLE on
    every run), with listeners registered through the configuration at several priorities: the same rule."""
    from clikit.api.config.application_config import ApplicationConfig
    from clikit.api.event import CONFIG, PRE_HANDLE, PRE_RESOLVE
    from clikit.args import ArgvArgs
    from clikit.config.default_application_config import DefaultApplicationConfig
    from clikit.console_application import ConsoleApplication
    from clikit.handler.callback_handler import CallbackHandler
    from clikit.io.input_stream import StringInputStream
    from clikit.io.output_stream import BufferedOutputStream

    for config_class in (ApplicationConfig, DefaultApplicationConfig):
        for plan_ in ([(0, False), (5, False), (0, False), (-1, False)], [(5, False), (5, True), (0, False)], [(0, False)], []):
            log = []
            payloads = []
            cfg = config_class("app", "1.0")
            cfg.set_catch_exceptions(False)
            cfg.set_terminate_after_run(False)
            if config_class is ApplicationConfig:
                from clikit.api.io import IO, Input, Output
                from clikit.formatter import PlainFormatter
                from clikit.resolver.default_resolver import DefaultResolver

                cfg.set_command_resolver(DefaultResolver())

                cfg.set_io_factory(lambda app, args, i, o, e: IO(Input(i), Output(o, PlainFormatter()), Output(e, PlainFormatter())))
            cfg.create_command("run").set_handler(CallbackHandler(lambda args, io: log.append(("handler",)) or 0))
            want = {}
            for ev in (CONFIG, PRE_RESOLVE, PRE_HANDLE):
                regs = []
                for k, (pr, stops) in enumerate(plan_):
                    def listener(event, name, d, ev=ev, k=k, stops=stops):
                        log.append((ev, k))
                        # what a listener is there for: the payload of the event it is called with
                        if ev == PRE_HANDLE:
                            payload = (event.io.is_quiet(), event.args.arguments(True), event.command.name, event.is_handled(), event.status_code)
                        elif ev == PRE_RESOLVE:
                            payload = (list(event.raw_args.tokens), event.application.config.name, event.resolved_command)
                        else:
                            payload = (event.config.name,)
                        payloads.append((ev, payload))
                        if stops:
                            event.stop_propagation()

                    cfg.add_event_listener(ev, listener, pr)
                    regs.append((pr, k, stops))
                exp = []
                for pr, k, stops in sorted(regs, key=lambda x: (-x[0], x[1])):
                    exp.append((ev, k))
                    if stops:
                        break
                want[ev] = exp
            record = {"kind": "application-events", "config": config_class.__name__, "listeners": [list(x) for x in plan_]}
            sh.case(("app-events", config_class.__name__, tuple(plan_)), bool(plan_))
            try:
                app = ConsoleApplication(cfg)
                built = list(log)
                del log[:]
                app.run(ArgvArgs(["prog", "run"]), StringInputStream(""), BufferedOutputStream(), BufferedOutputStream())
            except Exception as e:
                sh.violate("dispatch-raises", record, "building / running the application with these listeners raised %r" % (e,))
                continue
            sh.count("application_event_dispatches", 3)
            got_run = [x for x in log if x[0] != "handler"]
            for ev, payload in payloads:
                ok = {PRE_HANDLE: payload[1:] == ({}, "run", False, 0) if ev == PRE_HANDLE else True,
                      PRE_RESOLVE: payload[:2] == (["run"], "app") if ev == PRE_RESOLVE else True, CONFIG: payload == ("app",) if ev == CONFIG else True}[ev]
                if not ok:
                    sh.violate("event-payload", record, "a %s listener saw the payload %r" % (ev, payload))
                    break
            if built != want[CONFIG]:
                sh.violate("dispatch-order", record, "CONFIG listeners called %r, expected %r" % (built, want[CONFIG]))
            if got_run != want[PRE_RESOLVE] + want[PRE_HANDLE]:
                sh.violate("dispatch-order", record, "PRE_RESOLVE / PRE_HANDLE listeners called %r, expected %r" % (got_run, want[PRE_RESOLVE] + want[PRE_HANDLE]))


def execute(sh, Dispatcher, Event, ops, record):
    r = Run(Dispatcher, Event)
    touched = set()  # events dispatched or queried so far
    interesting = False
    for n, op in enumerate(ops):
        if op[0] == "reg":
            r.register(op[1], op[2], op[3])
        elif op[0] == "reg-nested":
            r.register(op[1], 0, False, nested=op[1])
        elif op[0] == "reg-nested-high":
            r.register(op[1], 0, False, nested=op[1], nested_priority=5)
        elif op[0] == "reg-again":
            if r.model and r.objs[0] is not None and not any(m.get("again") for m in r.model):
                first = r.model[0]
                other = "b" if first["event"] == "a" else "a"
                lid = len(r.model)
                r.objs[lid] = r.objs[0]
                r.model.append(dict(id=lid, event=other, priority=op[1], seq=r.seq, stops=first["stops"], raises=first.get("raises"), again=True, calls_as=0))
                r.seq += 1
                r.d.add_listener(other, r.objs[0], op[1])
        elif op[0] == "reg-raises":
            r.register(op[1], 0, False, raises=True)
        elif op[0] == "reg-method":
            r.register(op[1], op[2], op[3], method=True)
        elif op[0] == "query":
            try:
                r.d.get_listeners(op[1])
            except Exception as e:
                sh.violate("query-raises", record, "get_listeners(%r) raised %r at step %d" % (op[1], e, n))
                return interesting
            touched.update(EVENTS if op[1] is None else [op[1]])
        elif op[0] in ("dispatch", "dispatch-default", "dispatch-subclass"):
            ev = op[1]
            before = len(r.model)
            want = r.expected_calls(ev, before)
            regs = [m for m in r.model if m["event"] == ev]
            if len(regs) >= 2 and (any(m["stops"] for m in regs) or (ev in touched)):
                interesting = True
            r.log = []
            r.budget = 4 * before + 20  # listeners registered when the dispatch starts
            event = Event() if op[0] == "dispatch" else (subclass_event(Event) if op[0] == "dispatch-subclass" else None)
            failed = False
            try:
                ret = r.d.dispatch(ev, event) if event is not None else r.d.dispatch(ev)
            except ListenerFailed:
                failed = True
                ret = event
            except DispatchBudgetExceeded:
                sh.violate("dispatch-each-once", record, "step %d dispatch(%r) kept calling listeners: %d calls with %d listeners registered (first calls %r)" % (
                    n, ev, len(r.log), len(r.model), r.log[:8]))
                return interesting
            except Exception as e:
                sh.violate("dispatch-raises", record, "dispatch(%r) raised %r at step %d" % (ev, e, n))
                return interesting
            sh.count("dispatches")
            sh.count("listener_calls", len(r.log))
            got = [l for l in r.log if l < before]
            late = [l for l in r.log if l >= before]
            if got != want:
                sh.violate("dispatch-order", record, "step %d dispatch(%r): called %r, expected %r (model: %r)" % (
                    n, ev, got, want, [(m["id"], m["priority"], m["stops"]) for m in r.ordered(ev)]))
                return interesting
            if any(r.model[l]["event"] != ev for l in late):
                sh.violate("dispatch-foreign", record, "step %d dispatch(%r) called listeners of another event: %r" % (n, ev, late))
                return interesting
            if failed != r.expect_failure(ev, before):
                sh.violate("dispatch-raises", record, "step %d dispatch(%r): the listener's exception %s the caller, the model says it %s" % (
                    n, ev, "reached" if failed else "did not reach", "does" if not failed else "does not"))
                return interesting
            if event is not None and ret is not event:
                sh.violate("dispatch-return", record, "dispatch did not return the event it was given")
            if event is None and not failed and not isinstance(ret, Event):
                sh.violate("dispatch-return", record, "dispatch without an event returned %r" % (ret,))
            if r.bad_args:
                sh.violate("dispatch-args", record, "listener called with wrong arguments: %r" % (r.bad_args[:2],))
            touched.add(ev)
    # ---- queries after the last step ----------------------------------------
    try:
        for ev in EVENTS:
            want = [r.objs[m["id"]] for m in r.ordered(ev)]
            got = list(r.d.get_listeners(ev))
            if len(got) != len(want) or any(y is not None and x is not y for x, y in zip(got, want)):
                sh.violate("query-get-listeners", record, "get_listeners(%r) has %d entries in order %r, expected ids %r" % (
                    ev, len(got), [k for g in got for k, v in r.objs.items() if v is g], [m["id"] for m in r.ordered(ev)]))
                return interesting
            if bool(r.d.has_listeners(ev)) != bool(want):
                sh.violate("query-has-listeners", record, "has_listeners(%r)=%r with %d registered" % (ev, r.d.has_listeners(ev), len(want)))
        if bool(r.d.has_listeners()) != bool(r.model):
            sh.violate("query-has-listeners", record, "has_listeners()=%r with %d registered" % (r.d.has_listeners(), len(r.model)))
        allmap = r.d.get_listeners()
        for ev in EVENTS:
            want = [r.objs[m["id"]] for m in r.ordered(ev)]
            got = list(allmap.get(ev, []))
            if len(got) != len(want) or any(y is not None and x is not y for x, y in zip(got, want)):
                sh.violate("query-get-listeners", record, "get_listeners()[%r] disagrees with the model" % ev)
                break
        for m in r.model:
            if r.objs[m["id"]] is None:
                continue
            for ev in EVENTS:
                p = r.d.get_listener_priority(ev, r.objs[m["id"]])
                same = [x for x in r.model if r.objs[x["id"]] is r.objs[m["id"]] and x["event"] == ev]
                want = same[0]["priority"] if same else None
                if p != want:
                    sh.violate("query-priority", record, "get_listener_priority(%r, listener %d)=%r expected %r" % (ev, m["id"], p, want))
                    return interesting
        sh.count("final_query_rounds")
    except Exception as e:
        sh.violate("query-raises", record, "query raised %r" % (e,))
    return interesting


def plan(tier, seed):
    if tier == "quick":
        return [{"part": "enum", "maxlen": 4, "first": i, "step": 2} for i in range(0, len(OPS), 2)] + [{"part": "enum", "maxlen": 0}, {"part": "random", "n": 3000, "lo": 6, "hi": 40}]
    specs = [{"part": "enum", "maxlen": 5, "first": i, "step": 1} for i in range(len(OPS))] + [{"part": "enum", "maxlen": 0}]
    specs += [{"part": "random", "n": 50000, "lo": 6, "hi": 6} for _ in range(8)]
    specs += [{"part": "random", "n": 25000, "lo": 7, "hi": 40} for _ in range(4)]
    return specs


def run(sh, spec):
    repo.activate()
    from clikit.api.event import Event, EventDispatcher

    if spec["part"] == "enum":
        if spec["maxlen"] == 0:
            execute(sh, EventDispatcher, Event, (), {"ops": []})
            sh.case((), False)
            run_scale(sh, EventDispatcher, Event)
            run_odd_names(sh, EventDispatcher, Event)
            run_application_events(sh)
            return
        firsts = range(spec["first"], min(spec["first"] + spec.get("step", 3), len(OPS)))
        for n in range(1, spec["maxlen"] + 1):
            for f in firsts:
                for rest in itertools.product(range(len(OPS)), repeat=n - 1):
                    idx = (f,) + rest
                    ops = [OPS[i] for i in idx]
                    nt = execute(sh, EventDispatcher, Event, ops, {"ops": [list(o) for o in ops]})
                    sh.case(idx, nt)
        sh.sample({"ops": [list(OPS[i]) for i in (0, 13, 5, 12)]})
    else:
        rng = sh.rng
        for k in range(spec["n"]):
            n = rng.randint(spec["lo"], spec["hi"])
            idx = tuple(rng.randrange(len(OPS)) for _ in range(n))
            ops = [OPS[i] for i in idx]
            nt = execute(sh, EventDispatcher, Event, ops, {"ops": [list(o) for o in ops]})
            sh.case(idx, nt)
            if k < 1:
                sh.sample({"ops": [list(o) for o in ops]})


def finalize(tier, merged):
    c = merged["counters"]
    inc = []
    if c.get("dispatches", 0) < 1000 or c.get("listener_calls", 0) < 1000:
        inc.append("too few dispatches / listener invocations observed: %r" % (c,))
    return {"inconclusive": inc}


def replay(sh, case):
    repo.activate()
    from clikit.api.event import Event, EventDispatcher

    ops = [tuple(o) for o in case["ops"]]
    execute(sh, EventDispatcher, Event, ops, case)
