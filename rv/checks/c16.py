"""C16 - a progress bar always shows a truthful, well-formed frame and ends at 100 %.

Instruments: virtual clock (time.* replaced before clikit is imported),
recording stream that stamps every write / flush with the virtual time,
terminal emulator.  A *frame* is the text written between two flushes.
Oracle: state model of the public operations + per-frame clauses.
"""
import re

from rv.instruments import vclock

CLOCK = vclock.install()

from rv import repo  # noqa: E402
from rv.instruments.term import Term, UnknownSequence  # noqa: E402

PROPERTY = "C16"
LEVEL = "exploration"
EXHAUSTIVE = {"quick": True, "thorough": True}
RULE = (
    "call sequences over {start, advance(1), advance(3), set_progress(0|max/2|max|max+2|-1), display, clear, finish} with a "
    "virtual-clock advance from {0, 10ms, 50ms, 200ms, 2s} before each call, on maxima {0,1,3,10,50,200}, bar widths "
    "{1,10,28,40}, min-interval {0,0.1,1}, outputs {ANSI, plain, section, quiet}, verbosity (selects the default format), "
    "custom formats with a %message% of changing length and a two-line format, bars given an I/O object whose standard output is of the other kind than its error output, maximum redraw interval {default, 0.02, 0.5, 3} s. Part 'enum' runs every op sequence up to "
    "length L (clock steps drawn per call from the seed) on a grid of configurations; part 'random' runs sequences up to "
    "length 60 with messages changing between calls. Per frame: bar segment width, shown step = model step (0..max), "
    "percentage = floor(100*step/max), throttle (advance-caused frames not reaching the maximum are >= min-interval after "
    "the previous write), a frame whenever the maximum is reached, last frame after finish shows the maximum; ANSI: the "
    "emulator's bar lines equal the latest frame (no residue); plain: no control codes and one frame per line; quiet: no "
    "Also: full bar segment after finish; formats given by name and with remaining / estimated fields; section bars on a terminal exactly as wide as the frame with a title section above; one frame write failing (OSError / KeyboardInterrupt) at every position. "
    "write at all. non-trivial = sequence with >= 2 frames and >= 1 throttled advance; distinct by (ops, clock steps, config)."
)
BOUND = {
    "quick": "all op sequences of length <= 4 over 10 operations on 12 configurations + 4000 random sequences of length <= 60",
    "thorough": "all op sequences of length <= 5 over 10 operations on 48 configurations + 300000 random sequences of length <= 60",
}
ASSUMPTIONS = [
    "frames are kept shorter than the terminal (COLUMNS=200): wrapping of a carriage-return-redrawn line is outside the statement",
    "on a plain output finish() need not print a second frame when the last frame already shows the maximum",
    "which intermediate advances are drawn (redraw period) is not asserted, only that drawn frames are truthful and throttled",
]

OPS = [("start",), ("advance", 1), ("advance", 3), ("set_progress", "0"), ("set_progress", "half"), ("set_progress", "max"),
       ("set_progress", "over"), ("set_progress", "neg"), ("display",), ("clear",), ("finish",)]
CLOCKS = [0, 0.01, 0.05, 0.2, 2]
CSI = re.compile("\x1b\\[[0-9;]*[A-Za-z]")


class Lab(object):
    def __init__(self):
        from clikit.api.io import IO, Input, Output
        from clikit.formatter import AnsiFormatter, PlainFormatter
        from clikit.io.input_stream import StringInputStream
        from clikit.io.output_stream import BufferedOutputStream
        from clikit.ui.components import ProgressBar

        self.IO, self.Input, self.Output, self.ProgressBar = IO, Input, Output, ProgressBar
        self.AnsiFormatter, self.PlainFormatter, self.StringInputStream = AnsiFormatter, PlainFormatter, StringInputStream

        class RecStream(BufferedOutputStream):
            def __init__(self):
                BufferedOutputStream.__init__(self)
                self.events = []

            def write(self, s):
                self.events.append(("w", CLOCK.now, s))
                BufferedOutputStream.write(self, s)

            def flush(self):
                self.events.append(("f", CLOCK.now))
                BufferedOutputStream.flush(self)

        self.RecStream = RecStream


def resolve_step(arg, cmax):
    return {"0": 0, "half": cmax // 2, "max": cmax, "over": cmax + 2, "neg": -1}[arg]


def frames_of(events):
    """[(text, time)] text written between flushes (flushes without writes are skipped)."""
    out = []
    buf = ""
    t = None
    for e in events:
        if e[0] == "w":
            buf += e[2]
            t = e[1]
        else:
            if buf:
                out.append((buf, t))
            buf = ""
    return out, buf


def run_sequence(sh, lab, cfg, ops, clocks, messages=None):
    """cfg: dict(out, max, bw, minsec, verbosity, fmt)"""
    import os

    os.environ["COLUMNS"] = "200"
    cols = 200
    record = {"config": cfg, "ops": [list(o) for o in ops], "clocks": list(clocks), "messages": messages}
    if cfg.get("cols") == "exact" and cfg["out"] == "section":
        # a terminal exactly as wide as the bar's frame: the frame fills the row without wrapping
        try:
            scratch_stream = lab.RecStream()
            scratch = lab.ProgressBar(lab.Output(scratch_stream, lab.AnsiFormatter(forced=True)), cfg["max"], cfg["minsec"])
            scratch.set_bar_width(cfg["bw"])
            if cfg.get("fmt"):
                scratch.set_format(cfg["fmt"])
                scratch.set_message("m0")
            scratch.start()
            first = CSI.sub("", scratch_stream.fetch()).replace("\r", "")
            cols = max(len(l) for l in first.split("\n"))
        except Exception as e:
            sh.violate("raises", record, "measuring the first frame raised %r" % (e,))
            return False
        os.environ["COLUMNS"] = str(cols)
        sh.count("sequences_on_a_terminal_as_wide_as_the_frame")
    st = lab.RecStream()
    kind = cfg["out"]
    if kind in ("ansi", "section", "quiet"):
        out = lab.Output(st, lab.AnsiFormatter(forced=True))
    else:
        out = lab.Output(st, lab.PlainFormatter())
    target = out
    title_rows = []
    if kind == "section":
        if cfg.get("cols") == "exact":
            # something above the bar's section: what the bar redraws must not reach into it
            above = out.section()
            above.write_line("TITLE ABOVE THE BAR"[:cols])
            title_rows = ["TITLE ABOVE THE BAR"[:cols].rstrip()]
        target = out.section()
    target.set_verbosity(cfg["verbosity"])
    out.set_verbosity(cfg["verbosity"])
    if kind == "quiet":
        out.set_quiet(True)
    if cfg.get("via_io") and kind in ("ansi", "plain"):
        # the bar is given an I/O object (it draws on the error output) whose standard output is of the other kind
        other = lab.Output(lab.RecStream(), lab.PlainFormatter() if kind == "ansi" else lab.AnsiFormatter(forced=True))
        other.set_verbosity(cfg["verbosity"])
        target = lab.IO(lab.Input(lab.StringInputStream("")), other, out)
        sh.count("bars_given_an_io_with_mixed_outputs")
    try:
        bar = lab.ProgressBar(target, cfg["max"], cfg["minsec"])
        if cfg.get("maxsec") is not None:
            bar.max_seconds_between_redraws(cfg["maxsec"])
        bar.set_bar_width(cfg["bw"])
        fmt = cfg.get("fmt")
        if fmt:
            bar.set_format(fmt)
            bar.set_message("m0")
    except Exception as e:
        sh.violate("raises", record, "construction raised %r" % (e,))
        return False
    fmt = cfg.get("fmt")
    step = 0
    cmax = cfg["max"]
    last_write = None
    nframes_total = 0
    throttled_advances = 0
    finished = False
    last_frame_step = None
    last_frame_bar = None
    term = Term(cols) if kind in ("ansi", "section") else None
    if term is not None and title_rows:
        for e in st.events:
            if e[0] == "w":
                term.feed(e[2])
    plain_frames = []
    for i, op in enumerate(ops):
        CLOCK.advance(clocks[i])
        if messages and messages[i] is not None and fmt:
            bar.set_message(messages[i])
        n0 = len(st.events)
        name = op[0]
        try:
            if name == "advance":
                bar.advance(op[1])
            elif name == "set_progress":
                bar.set_progress(resolve_step(op[1], cmax))
            else:
                getattr(bar, name)()
        except Exception as e:
            sh.violate("raises", record, "op #%d %r raised %r" % (i, op, e))
            return False
        # ---- model -----------------------------------------------------------------
        reached_max = False
        if name == "start":
            step = 0
        elif name in ("advance", "set_progress"):
            s = step + op[1] if name == "advance" else resolve_step(op[1], cmax)
            if cmax and s > cmax:
                cmax = s
            elif s < 0:
                s = 0
            step = s
            reached_max = step == cmax
        elif name == "finish":
            if not cmax:
                cmax = step
            step = cmax
            finished = True
        if bar.get_progress() != step or bar.get_max_steps() != cmax:
            sh.violate("state", record, "after op #%d %r: progress/max = %r/%r, model %r/%r" % (i, op, bar.get_progress(), bar.get_max_steps(), step, cmax))
            return False
        ev = st.events[n0:]
        sh.count("stream_events", len(ev))
        if kind == "quiet":
            if any(e[0] == "w" for e in ev):
                sh.violate("quiet", record, "quiet output received %r" % ([e[2] for e in ev if e[0] == "w"][:3],))
                return False
            continue
        frames, rest = frames_of(ev)
        if rest:
            sh.inconclusive_because("writes not followed by a flush: frame boundaries cannot be observed")
            return False
        if term is not None:
            try:
                for e in ev:
                    if e[0] == "w":
                        term.feed(e[2])
            except UnknownSequence as e2:
                sh.inconclusive_because("unknown control sequence %s" % e2)
                return False
        for text, t in frames:
            nframes_total += 1
            sh.count("frames")
            visible = CSI.sub("", text).replace("\r", "")
            if name == "clear":
                if visible.strip():
                    sh.violate("clear", record, "clear() wrote visible text %r" % visible)
                last_write = t
                continue
            body = visible.strip("\n")
            if cols != 200 and any(len(l) > cols for l in body.split("\n")):
                # the frame has outgrown the terminal it was measured for (more digits): wrapping frames are outside the statement
                sh.count("exact_width_sequences_outgrown")
                return nframes_total >= 2
            if kind == "plain":
                if "\x1b" in text or "\r" in text:
                    sh.violate("plain-control-codes", record, "plain output received control codes: %r" % text)
                    return False
                plain_frames.append(body)
            # -- well-formedness ------------------------------------------------------
            m = re.search(r"\[([^\]]*)\]", body)
            if not m or len(m.group(1)) != cfg["bw"]:
                sh.violate("bar-width", record, "op #%d %r: frame %r has a bar segment of width %s, configured %d" % (
                    i, op, body, len(m.group(1)) if m else None, cfg["bw"]))
                return False
            body_for_step = body
            if fmt and "%message%" in fmt and messages:
                shown_msg = re.sub(r"</?[a-z]+>", "", next((mm for mm in reversed(messages[: i + 1]) if mm is not None), "m0"))
                body_for_step = body.replace(shown_msg, "", 1)
            cur = re.match(r"\s*(?:m\S*\s+)?(\d+)", body_for_step)
            if not cur or int(cur.group(1)) != step:
                sh.violate("shown-step", record, "op #%d %r: frame %r shows step %s, the bar is at %d" % (i, op, body, cur.group(1) if cur else None, step))
                return False
            if cmax and not (0 <= step <= cmax):
                sh.violate("shown-step", record, "step %d outside 0..%d" % (step, cmax))
            mx = re.search(r"(\d+)/(\d+)", body)
            if mx and cmax and int(mx.group(2)) != cmax:
                sh.violate("shown-max", record, "op #%d %r: frame %r shows maximum %s, model %d" % (i, op, body, mx.group(2), cmax))
                return False
            pm = re.search(r"(\d+)%", body)
            if pm and cmax:
                sh.count("percent_fields")
                if int(pm.group(1)) != step * 100 // cmax:
                    sh.violate("percent", record, "op #%d %r: frame %r shows %s%%, step %d of %d is %d%%" % (
                        i, op, body, pm.group(1), step, cmax, step * 100 // cmax), "percent-float-floor" if False else None)
                    return False
            if fmt and "%message%" in fmt and messages:
                cur_msg = next((mm for mm in reversed(messages[: i + 1]) if mm is not None), "m0")
                cur_msg = re.sub(r"</?[a-z]+>", "", cur_msg)  # messages may carry style tags
                if cur_msg not in body:
                    sh.violate("message", record, "frame %r does not show the current message %r" % (body, cur_msg))
            # -- throttle -----------------------------------------------------------------
            if name in ("advance", "set_progress") and not reached_max and last_write is not None and cfg["minsec"] > 0:
                if t - last_write < cfg["minsec"] - 1e-9:
                    sh.violate("throttle", record, "op #%d %r redrew %.3fs after the previous write, minimum interval %.3fs" % (i, op, t - last_write, cfg["minsec"]))
                    return False
            last_write = t
            last_frame_step = step
            last_frame_bar = m.group(1)
            # -- residue (ANSI / section) -----------------------------------------------
            if term is not None:
                rows = body.split("\n")
                scr = term.screen()
                tail = scr[-len(rows):] if len(scr) >= len(rows) else scr
                if [r.rstrip() for r in rows] != tail:
                    sh.violate("residue", record, "op #%d %r: terminal shows %r, latest frame is %r" % (i, op, tail, rows))
                    return False
                if kind == "section" and [r.rstrip() for r in scr] != title_rows + [r.rstrip() for r in rows]:
                    sh.violate("residue", record, "the terminal shows %r, expected %r (what is above the bar, then the %d-row frame)" % (scr, title_rows + rows, len(rows)))
                    return False
        if name in ("advance", "set_progress") and not frames and last_write is not None and CLOCK.now - last_write < cfg["minsec"]:
            throttled_advances += 1
        if name in ("advance", "set_progress") and reached_max and not frames:
            sh.violate("max-always-draws", record, "op #%d %r reached the maximum %d but drew nothing" % (i, op, cmax))
            return False
        if name == "finish":
            if last_frame_step != cmax:
                sh.violate("finish-shows-max", record, "after finish the last frame shows step %r, the maximum is %d" % (last_frame_step, cmax))
                return False
            if kind in ("ansi", "section") and not frames:
                sh.violate("finish-shows-max", record, "finish() drew nothing on an overwriting output")
                return False
            # 100 %: the bar segment of the last frame is full (the only sign of it when the format has no percentage,
            # as for a bar whose maximum was unknown until finish)
            if cmax and last_frame_bar is not None and last_frame_bar.strip("=") != "":
                sh.violate("finish-shows-max", record, "after finish the last frame's bar segment is %r: not full although the bar is at its maximum %d" % (last_frame_bar, cmax))
                return False
            sh.count("finishes_with_full_bar")
            sh.count("finishes")
    if kind == "plain":
        data = st.fetch()
        # every frame stands on its own line; empty lines (a leading line break) are not frames
        lines = [l for l in data.split("\n") if l.strip() != ""]
        if lines != [l for f in plain_frames for l in f.split("\n") if l.strip() != ""]:
            sh.violate("plain-one-frame-per-line", record, "plain stream lines %r, frames drawn %r" % (lines, plain_frames))
            return False
    return nframes_total >= 2 and throttled_advances >= 1


FORMATS = [None, " %message% %current%/%max% [%bar%] %percent:3s%%", " %current%/%max% [%bar%]\n %percent:3s%% %message%",
           " %current%/%max% [%bar%] %percent:3s%% left %remaining:6s% of %estimated:-6s%"]


def config_grid(tier):
    out = []
    if tier == "quick":
        grid = [("ansi", 10, 10, 0.1, 0, None), ("plain", 10, 10, 0.1, 0, None), ("section", 3, 28, 0, 0, None), ("quiet", 3, 10, 0.1, 0, None),
                ("ansi", 0, 28, 0.1, 0, None), ("plain", 0, 10, 0, 0, None), ("ansi", 50, 40, 1, 1, None), ("plain", 50, 1, 1, 2, None),
                ("ansi", 3, 10, 0, 4, FORMATS[1]), ("ansi", 10, 10, 0.1, 0, FORMATS[2]), ("section", 0, 10, 0.1, 0, None), ("plain", 1, 28, 0.1, 4, FORMATS[1]),
                ("section-exact", 10, 10, 0, 0, None), ("plain", 0, 10, 0, 0, "verbose"), ("ansi", 3, 10, 0, 0, "verbose")]
    else:
        grid = []
        k = 0
        for kind in ("ansi", "plain", "section", "quiet"):
            for mx in (0, 1, 3, 10, 50, 200):
                for variant in range(2):
                    k += 1
                    grid.append((kind, mx, (1, 10, 28, 40)[k % 4], (0, 0.1, 1)[k % 3], (0, 1, 2, 4)[(k // 2) % 4], FORMATS[k % 3] if kind != "quiet" and mx else None))
    if tier != "quick":
        grid += [("section-exact", 10, 10, 0, 0, None), ("section-exact", 3, 28, 0.1, 1, FORMATS[1]), ("section-exact", 50, 40, 0, 2, None)]
    for kind, mx, bw, ms, v, fmt in grid:
        if kind == "section-exact":
            out.append(dict(out="section", max=mx, bw=bw, minsec=ms, verbosity=v, fmt=fmt, cols="exact"))
            continue
        out.append(dict(out=kind, max=mx, bw=bw, minsec=ms, verbosity=v, fmt=fmt))
    return out


def plan(tier, seed):
    n = len(config_grid(tier))
    if tier == "quick":
        return [{"part": "enum", "maxlen": 4, "cfgs": list(range(i, n, 4))} for i in range(4)] + [{"part": "random", "n": 1000} for _ in range(4)]
    return [{"part": "enum", "maxlen": 5, "cfgs": [i]} for i in range(n)] + [{"part": "random", "n": 20000} for _ in range(15)]


def run_failed_write(sh, lab):
    """A write of a frame fails once (a full pipe, an interrupted system call) and the application goes on: finishing
    still draws, and the last frame shows the maximum at 100 %."""
    for kind in ("plain", "ansi"):
        for mx in (1, 5):
            for fail_at in range(0, mx + 1):  # which call's frame is lost: 0 = start(), k = the k-th advance()
                for exc in (OSError(11, "write could not complete without blocking"), KeyboardInterrupt()):
                    st = lab.RecStream()
                    out = lab.Output(st, lab.AnsiFormatter(forced=True) if kind == "ansi" else lab.PlainFormatter())
                    bar = lab.ProgressBar(out, mx, 0)
                    bar.set_bar_width(10)
                    rec = {"kind": "failed-write", "out": kind, "max": mx, "frame_lost_at_call": fail_at, "error": type(exc).__name__}
                    sh.case(("failed-write", kind, mx, fail_at, type(exc).__name__), True)
                    orig_write = st.write
                    state = {"armed": False}

                    def write(s2, orig_write=orig_write, state=state, exc=exc):
                        if state["armed"] and s2.strip():
                            state["armed"] = False
                            raise exc
                        return orig_write(s2)

                    st.write = write
                    calls = [bar.start] + [bar.advance] * mx
                    for k, call in enumerate(calls):
                        state["armed"] = k == fail_at
                        CLOCK.advance(1)
                        try:
                            call()
                        except (OSError, KeyboardInterrupt):
                            pass  # the application catches it and goes on
                        except Exception as e:
                            sh.violate("raises", rec, "call #%d raised %r" % (k, e))
                    state["armed"] = False
                    n0 = len(st.events)
                    try:
                        bar.finish()
                    except Exception as e:
                        sh.violate("raises", rec, "finish() raised %r" % (e,))
                        continue
                    sh.count("failed_write_runs")
                    text = CSI.sub("", st.fetch()).replace("\r", "\n")
                    frames = [l for l in text.split("\n") if l.strip()]
                    last = frames[-1] if frames else ""
                    m = re.search(r"\[([^\]]*)\]", last)
                    if "%d/%d" % (mx, mx) not in last or "100%" not in last or not m or m.group(1).strip("=") != "":
                        sh.violate("finish-shows-max", rec, "after finish() the last frame on the stream is %r, not the maximum at 100%%" % (last,))


def run(sh, spec):
    import itertools

    repo.activate()
    lab = Lab()
    rng = sh.rng
    if spec["part"] == "enum" and 0 in spec["cfgs"]:
        run_failed_write(sh, lab)
    if spec["part"] == "enum":
        grid = config_grid(sh.tier)
        for ci in spec["cfgs"]:
            cfg = grid[ci]
            for n in range(1, spec["maxlen"] + 1):
                for idx in itertools.product(range(len(OPS)), repeat=n):
                    ops = [OPS[i] for i in idx]
                    clocks = [rng.choice(CLOCKS) for _ in ops]
                    nt = run_sequence(sh, lab, cfg, ops, clocks)
                    sh.case((ci, idx, tuple(clocks)), nt)
                    if nt and not sh.samples:
                        sh.sample({"config": cfg, "ops": [list(o) for o in ops], "clocks": clocks})
    else:
        for k in range(spec["n"]):
            kind = rng.choice(["ansi", "ansi", "plain", "plain", "section", "quiet"])
            mx = rng.choice([0, 1, 3, 10, 50, 200])
            fmt = rng.choice(FORMATS) if (mx and kind != "quiet") else None
            if kind != "quiet" and rng.random() < 0.15:
                fmt = rng.choice(["normal", "verbose", "very_verbose", "debug"])  # a format given by its name (the *_nomax variant is picked for a bar without maximum)
            cfg = dict(out=kind, max=mx, bw=rng.choice([1, 2, 10, 28, 40]), minsec=rng.choice([0, 0.1, 1]), verbosity=rng.choice([0, 1, 2, 4]), fmt=fmt,
                       via_io=rng.random() < 0.25, maxsec=rng.choice([None, None, 0.02, 0.5, 3]))
            if kind == "section" and rng.random() < 0.4:
                cfg["cols"] = "exact"
            n = rng.randint(1, 60) if rng.random() < 0.3 else rng.randint(1, 12)
            ops = [("start",)] if rng.random() < 0.8 else []
            ops += [rng.choice(OPS) for _ in range(n)]
            if rng.random() < 0.7:
                ops.append(("finish",))
            clocks = [rng.choice(CLOCKS) for _ in ops]
            msgs = [rng.choice([None, None, "m", "message-long-" + "x" * rng.randint(0, 30), "mid", "<info>ok</info>", "<b>bold</b> and <comment>more</comment>"]) for _ in ops] if fmt else None
            nt = run_sequence(sh, lab, cfg, ops, clocks, msgs)
            sh.case((tuple(sorted(cfg.items(), key=str)), tuple(ops), tuple(clocks)), nt)
            if k < 1:
                sh.sample({"config": cfg, "ops": [list(o) for o in ops], "clocks": clocks})


def finalize(tier, merged):
    c = merged["counters"]
    inc = []
    for k in ("frames", "stream_events", "percent_fields", "finishes"):
        if not c.get(k):
            inc.append("counter %s is zero (no frame observed: the deciding monitor saw nothing)" % k)
    return {"inconclusive": inc}


def replay(sh, case):
    repo.activate()
    lab = Lab()
    run_sequence(sh, lab, case["config"], [tuple(o) for o in case["ops"]], case["clocks"], case.get("messages"))
