"""C10 - quiet and verbosity gate every write path identically.

Entry points are discovered by reflection and probing (a public callable whose
signature can be satisfied by a string / flags / int and that makes bytes arrive
at the recording stream when called un-gated is a *writing method*); then the
complete truth table verbosity x flags x quiet x formatter x object kind is run
and every cell compared with   arrives <=> not quiet and verbosity >= lowest(flags).
"""
import inspect

from rv import repo

PROPERTY = "C10"
LEVEL = "exploration"
EXHAUSTIVE = True
RULE = (
    "writing methods are found by reflection on IO (generic, BufferedIO, ConsoleIO, NullIO with recording streams), Output "
    "(standard and error), SectionOutput (of each, nesting depth 1-2) and section-IO objects, probing each public callable "
    "once un-gated; the full table method x verbosity {0,1,2,4} x flags {None,0..7} x quiet x formatter {ANSI forced, ANSI on "
    "an ANSI stream, plain} is executed, one fresh object per cell (sections pre-filled un-gated before clear/overwrite); "
    "monotonicity is re-checked on the recorded table. Variant cells repeat the gate with other message texts ('', newline, "
    "two lines) and inside an indentation scope: a closed gate lets nothing through, an open gate exactly what the un-gated "
    "call writes. Pair cells keep two I/O objects and a section alive with different verbosity / quiet settings and write the "
    "Also: section I/Os of every I/O kind (the null and the console I/O too; the console I/O writes through the library's file-stream wrapper). "
    "same flag word to each in turn: every output is gated by its own settings. Histories: random sequences (3-14 steps) of set_verbosity / set_quiet on any object and writes (unique id per message, random flag word) through an I/O object, its standard and error outputs (gated separately), 1-3 live sections of the standard output, a section of the error output and a section I/O: an id arrives in its own stream at the time of the call iff that output's gate is open, never in the other stream, and a suppressed id never appears later (sections re-print recorded content when a sibling changes). non-trivial = cell with flags not in "
    "(None,0) or quiet; distinct by cell."
)
BOUND = {"quick": "complete table (19168 cells) + 69184 variant cells + 360 pair cells + 3000 histories, section depth 1", "thorough": "the same with section depth 1 and 2, 320000 histories"}
ASSUMPTIONS = [
    "lowest(flags) = VERBOSE if bit 1, else VERY_VERBOSE if bit 2, else DEBUG if bit 4, else NORMAL; flags None = 0",
    "a method that writes nothing when un-gated in a configuration (e.g. clear() on a plain section) is not a writing method there",
]

VERBOSITIES = (0, 1, 2, 4)
FLAGS = (None, 0, 1, 2, 3, 4, 5, 6, 7)
STRINGY = ("string", "message", "text", "content", "line")


def lowest(fl):
    if not fl:
        return 0
    if fl & 1:
        return 1
    if fl & 2:
        return 2
    if fl & 4:
        return 4
    return 0


class Lab(object):
    def __init__(self):
        from clikit.api.io import IO, Input, Output
        from clikit.formatter import AnsiFormatter, PlainFormatter
        from clikit.io import BufferedIO, ConsoleIO, NullIO
        from clikit.io.input_stream import StringInputStream
        from clikit.io.output_stream import BufferedOutputStream

        self.IO, self.Input, self.Output = IO, Input, Output
        self.BufferedIO, self.ConsoleIO, self.NullIO = BufferedIO, ConsoleIO, NullIO
        self.StringInputStream = StringInputStream
        self.AnsiFormatter, self.PlainFormatter = AnsiFormatter, PlainFormatter

        class RecStream(BufferedOutputStream):
            """Public-API output stream that records what arrives."""

            def __init__(self, ansi=False):
                BufferedOutputStream.__init__(self)
                self._ansi = ansi
                self.fail_next = False

            def write(self, string):
                if self.fail_next:
                    self.fail_next = False
                    raise BlockingIOError(11, "write could not complete without blocking")
                return BufferedOutputStream.write(self, string)

            def supports_ansi(self):
                return self._ansi

        self.RecStream = RecStream

        import io as _io

        from clikit.io.output_stream import StreamOutputStream

        class FileRecStream(StreamOutputStream):
            """The library's own wrapper of a text file object (what a console I/O writes to), over an in-memory file."""

            def __init__(self, ansi=False):
                self._text = _io.StringIO()
                StreamOutputStream.__init__(self, self._text)
                self._ansi = ansi
                self.fail_next = False

            def supports_ansi(self):
                return self._ansi

            def fetch(self):
                return self._text.getvalue()

            def clear(self):
                self._text.seek(0)
                self._text.truncate()

        self.FileRecStream = FileRecStream

    def formatter(self, fk):
        if fk == "ansi-forced":
            return self.AnsiFormatter(forced=True)
        if fk == "ansi-stream":
            return self.AnsiFormatter()
        return self.PlainFormatter()

    def make(self, kind, fk, depth=1):
        """Returns (object, gate setter, streams, prefill function)."""
        ansi_stream = fk == "ansi-stream"
        so, se = self.RecStream(ansi_stream), self.RecStream(ansi_stream)
        if kind.startswith("bufferedio"):
            io = self.BufferedIO("", self.formatter(fk))
            io.output.set_stream(so)
            io.error_output.set_stream(se)
        elif kind.startswith("nullio"):
            io = self.NullIO()
            io.set_formatter(self.formatter(fk))
            io.output.set_stream(so)
            io.error_output.set_stream(se)
        elif kind.startswith("consoleio"):
            # the console I/O writes through the library's stream wrapper of a file object
            so, se = self.FileRecStream(ansi_stream), self.FileRecStream(ansi_stream)
            io = self.ConsoleIO(self.Input(self.StringInputStream("")), self.Output(so, self.formatter(fk)), self.Output(se, self.formatter(fk)))
        else:
            io = self.IO(self.Input(self.StringInputStream("")), self.Output(so, self.formatter(fk)), self.Output(se, self.formatter(fk)))
        gated = [io]
        if kind in ("io", "bufferedio", "nullio", "consoleio"):
            obj = io
        elif kind == "out":
            obj = io.output
        elif kind == "err":
            obj = io.error_output
        elif kind in ("sec-out", "sec-err"):
            obj = io.output if kind == "sec-out" else io.error_output
            for _ in range(depth):
                obj = obj.section()
            gated = [obj]
        elif kind.endswith("secio"):
            obj = io
            for _ in range(depth):
                obj = obj.section()
            gated = [obj]
        else:
            raise AssertionError(kind)

        def gate(verbosity, quiet):
            for g in gated:
                g.set_verbosity(verbosity)
                g.set_quiet(quiet)

        def prefill():
            if "sec" in kind:
                obj.write_line("prefill-one")
                obj.write_line("prefill-two")
            so.clear()
            se.clear()

        return obj, gate, (so, se), prefill


KINDS = ("io", "bufferedio", "consoleio", "nullio", "out", "err", "sec-out", "sec-err", "secio", "bufferedio-secio", "nullio-secio", "consoleio-secio")
FORMATTERS = ("ansi-forced", "ansi-stream", "plain")


TEXTS = ["PROBE", "", "\n", "two\nlines\n", "L" * 9000, "M" * 20000 + "\n"]


def synth(method, flags="absent", text="PROBE"):
    """Build call arguments from the signature, or None if it cannot be satisfied."""
    try:
        sig = inspect.signature(method)
    except (TypeError, ValueError):
        return None
    args = {}
    has_flags = False
    for p in sig.parameters.values():
        if p.kind in (p.VAR_POSITIONAL, p.VAR_KEYWORD):
            continue
        if p.name in STRINGY:
            args[p.name] = text
        elif p.name == "flags":
            has_flags = True
            if flags != "absent":
                args[p.name] = flags
        elif p.default is not inspect.Parameter.empty:
            continue
        else:
            return None
    return args, has_flags


SKIP_PREFIXES = ("set_", "is_", "get_", "supports_", "fetch_", "clear_in", "append_", "read")
SKIP_NAMES = ("close", "format", "remove_format", "section", "indent", "increment_indent", "flush")


def discover(lab, sh):
    found = {}
    unprobed = set()
    for kind in KINDS:
        for fk in FORMATTERS:
            try:
                obj = lab.make(kind, fk)[0]
            except Exception as e:
                # an output object of the property's domain cannot even be obtained (io.section() of some I/O kind raises)
                sh.violate("output-unavailable", {"kind": kind, "formatter": fk}, "creating the %s output object raised %r" % (kind, e))
                continue
            for name in dir(obj):
                if name.startswith("_"):
                    continue
                m = getattr(obj, name, None)
                if not callable(m) or inspect.isclass(m):
                    continue
                if name.startswith(SKIP_PREFIXES) or name in SKIP_NAMES:
                    continue
                sy = synth(m)
                if sy is None:
                    unprobed.add("%s.%s" % (type(obj).__name__, name))
                    continue
                obj2, gate, (so, se), prefill = lab.make(kind, fk)
                gate(4, False)
                prefill()
                try:
                    getattr(obj2, name)(**sy[0])
                except Exception as e:
                    # not a verdict: the method could not be probed with synthesised arguments
                    unprobed.add("%s.%s (raised %s when probed)" % (type(obj).__name__, name, type(e).__name__))
                    continue
                if so.fetch() or se.fetch():
                    found[(kind, fk, name)] = sy[1]
    return found, sorted(unprobed)


def run_cell(lab, kind, fk, name, has_flags, v, q, fl, depth=1, text="PROBE", indent=0):
    obj, gate, (so, se), prefill = lab.make(kind, fk, depth)
    gate(4, False)
    prefill()
    gate(v, q)
    m = getattr(obj, name)
    sy = synth(m, fl if has_flags else "absent", text)
    if indent:
        with obj.indent(indent):
            m(**sy[0])
    else:
        m(**sy[0])
    return bool(so.fetch() or se.fetch()), so.fetch() + se.fetch()


def run_pairs(sh, lab, found):
    """Two live outputs with different settings: each one is gated by its OWN verbosity / quiet flag,
    whatever was written to the other one just before."""
    names = sorted(set(n for (k, f, n), hf in found.items() if hf and k == "out"))
    for fk in FORMATTERS:
        for name in names:
            for fl in (1, 2, 4, 3, 6):
                for (v1, q1), (v2, q2) in (((4, False), (0, False)), ((0, False), (4, False)), ((1, False), (2, False)), ((2, False), (1, False)),
                                           ((4, False), (4, True)), ((4, True), (4, False))):
                    io1, g1, (so1, se1), _ = lab.make("io", fk)
                    io2, g2, (so2, se2), _ = lab.make("io", fk)
                    sec = io1.output.section()
                    g1(v1, q1)
                    g2(v2, q2)
                    case = {"kind": "pair", "formatter": fk, "method": name, "flags": fl, "first": [v1, q1], "second": [v2, q2]}
                    sh.case(("pair", fk, name, fl, v1, q1, v2, q2), True)
                    try:
                        getattr(io1.output, name)("FIRST", fl)
                        getattr(io2.output, name)("SECOND", fl)
                        getattr(io1.error_output, name)("THIRD", fl)
                        # a section created before the output was gated keeps the settings it was created with
                        getattr(sec, name)("SECTION", fl)
                        # one created afterwards: whatever settings it reports are the ones that gate it
                        late = io1.output.section()
                        late_open = (not late.is_quiet()) and late.verbosity >= lowest(fl)
                        before_late = len(so1.fetch())
                        getattr(late, name)("LATE", fl)
                        if ("LATE" in so1.fetch()[before_late:]) != late_open:
                            sh.violate("gate", case, "a section created from the gated output reports verbosity %r quiet=%r but %s the message" % (
                                late.verbosity, late.is_quiet(), "wrote" if "LATE" in so1.fetch()[before_late:] else "suppressed"))
                    except Exception as e:
                        sh.violate("cell-raises", case, "raised %r" % (e,))
                        continue
                    sh.count("pair_cells")
                    w1 = (not q1) and v1 >= lowest(fl)
                    w2 = (not q2) and v2 >= lowest(fl)
                    if ("FIRST" in so1.fetch()) != w1 or ("SECOND" in so2.fetch()) != w2 or ("THIRD" in se1.fetch()) != w1:
                        sh.violate("gate", case, "two live outputs: first (v=%d,q=%s) wrote %r / %r, second (v=%d,q=%s) wrote %r" % (
                            v1, q1, so1.fetch()[:20], se1.fetch()[:20], v2, q2, so2.fetch()[:20]))
                    if ("SECTION" in so1.fetch()) != (0 >= lowest(fl)):
                        sh.violate("gate", case, "a new section (verbosity 0, not quiet) wrote %r for flags %r" % (so1.fetch()[:30], fl))


def run_histories(sh, lab, n, maxlen):
    """Random histories over one I/O object with separately gated standard / error outputs and several live sections:
    every message carries a unique id; an id whose gate was closed at the time of the call never appears in any stream,
    then or later (sections re-print their recorded content when another section changes); an id whose gate was open
    appears in its own stream at the time of the call."""
    rng = sh.rng
    IO_METHODS = {"write": "o", "write_line": "o", "write_raw": "o", "write_line_raw": "o", "error": "e", "error_line": "e", "error_raw": "e", "error_line_raw": "e"}
    OUT_METHODS = ("write", "write_line", "write_raw", "write_line_raw")
    for h in range(n):
        fk = rng.choice(FORMATTERS)
        kind = rng.choice(["io", "bufferedio", "consoleio"])
        io, _, (so, se), _ = lab.make(kind, fk)
        objs = {"io": io, "out": io.output, "err": io.error_output}
        stream_of = {"out": "o", "err": "e"}
        for i in range(rng.randint(1, 3)):
            objs["sec-o%d" % i] = io.output.section()
            stream_of["sec-o%d" % i] = "o"
        if rng.random() < 0.5:
            objs["sec-e0"] = io.error_output.section()
            stream_of["sec-e0"] = "e"
        if rng.random() < 0.3:
            objs["secio"] = io.section()  # an IO whose outputs are sections of io's outputs
        gates = {}  # name -> (verbosity, quiet) of each Output-like object, as set through the public setters

        def settings(name):
            o = objs[name]
            return o.verbosity, o.is_quiet()

        steps = []
        closed_ids, seen = [], {"o": "", "e": ""}
        ok = True
        for step in range(rng.randint(3, maxlen)):
            r = rng.random()
            name = rng.choice(sorted(objs))
            if r < 0.04:
                # one write to the standard stream fails (a transient error of the stream): whatever the output does with
                # it, messages written afterwards still arrive
                so.fail_next = True
                steps.append(["stream", "next write fails"])
                sh.count("history_stream_errors")
                continue
            if r < 0.3:
                v, q = rng.choice(VERBOSITIES), rng.random() < 0.3
                target = objs[name]
                # setting the gate of 'io' / 'secio' sets both of its outputs (that is what the setters document)
                if rng.random() < 0.5:
                    target.set_verbosity(v)
                    steps.append([name, "set_verbosity", v])
                else:
                    target.set_quiet(q)
                    steps.append([name, "set_quiet", q])
                continue
            mid = "<%d.%d>" % (h, step)
            ident = "ID%dx%dZ" % (h, step)
            fl = rng.choice(FLAGS)
            if name in ("io", "secio"):
                meth = rng.choice(sorted(IO_METHODS))
                which = IO_METHODS[meth]
                gate_obj = objs[name].output if which == "o" else objs[name].error_output
            else:
                which = stream_of[name]
                gate_obj = objs[name]
                meth = rng.choice(OUT_METHODS + (("overwrite", "clear") if name.startswith("sec") else ()))
            if meth in ("overwrite", "clear"):
                fl = None  # these take no flag word
            v, q = gate_obj.verbosity, gate_obj.is_quiet()
            is_open = (not q) and v >= lowest(fl)
            steps.append([name, meth, ident, fl, "open" if is_open else "closed"])
            record = {"kind": "history", "io": kind, "formatter": fk, "objects": sorted(objs), "steps": steps}
            failing = so.fail_next
            try:
                if meth == "clear":
                    objs[name].clear(rng.choice([None, 1, 2]))
                elif meth == "overwrite":
                    objs[name].overwrite(ident)
                else:
                    getattr(objs[name], meth)(ident + ("" if "line" in meth else "\n"), fl)
            except OSError as e:
                if not failing:
                    sh.violate("cell-raises", record, "step %d %s.%s raised %r" % (step, name, meth, e))
                    ok = False
                    break
                # the stream's error reached the caller: the message is lost, nothing else
                seen = {"o": so.fetch(), "e": se.fetch()}
                steps[-1].append("stream error reached the caller")
                if name.startswith("sec") or name == "secio":
                    break  # a section's record of what is on screen is now unknown: the history ends here
                continue
            except Exception as e:
                sh.violate("cell-raises", record, "step %d %s.%s raised %r" % (step, name, meth, e))
                ok = False
                break
            sh.count("history_calls")
            now = {"o": so.fetch(), "e": se.fetch()}
            if failing and not so.fail_next:
                # the failing write was swallowed by the library: the message may be lost; the history continues
                seen = now
                continue
            if meth != "clear":
                arrived = ident in now[which][len(seen[which]):]
                if arrived != is_open:
                    sh.violate("gate", record, "step %d: %s.%s(flags=%r) with that output at verbosity %d quiet=%s: arrived=%s, expected %s" % (
                        step, name, meth, fl, v, q, arrived, is_open))
                    ok = False
                    break
                if not is_open:
                    closed_ids.append(ident)
                    if now[which] != seen[which]:
                        # a suppressed write is no write at all: no cursor codes, no reprint of what other sections show
                        sh.violate("gate", record, "step %d: the suppressed %s.%s(flags=%r) still put %r on the stream" % (
                            step, name, meth, fl, now[which][len(seen[which]):][:60]))
                        ok = False
                        break
            else:
                if not is_open and now[which] != seen[which]:
                    sh.violate("gate", record, "step %d: %s.clear(flags=%r) with that output at verbosity %d quiet=%s wrote %r" % (
                        step, name, fl, v, q, now[which][len(seen[which]):][:40]))
                    ok = False
                    break
            other = "e" if which == "o" else "o"
            if now[other] != seen[other]:
                sh.violate("gate", record, "step %d: %s.%s wrote %r to the other stream" % (step, name, meth, now[other][len(seen[other]):][:40]))
                ok = False
                break
            leaked = [i for i in closed_ids if i in now["o"] or i in now["e"]]
            if leaked:
                sh.violate("gate", record, "step %d (%s.%s): text suppressed earlier reached the stream afterwards: %r" % (step, name, meth, leaked[:3]))
                ok = False
                break
            seen = now
        sh.case(("history", kind, fk, len(objs), tuple(tuple(x[:2]) for x in steps)), len(closed_ids) > 0)
        sh.count("histories")
        if h < 1 and ok:
            sh.sample({"kind": "history", "steps": steps[:12]})


def plan(tier, seed):
    groups = [list(KINDS[i::4]) for i in range(4)]
    specs = [{"depths": [1], "kinds": g, "pairs": i == 0} for i, g in enumerate(groups)]
    if tier != "quick":
        specs += [{"depths": [2], "kinds": g, "pairs": False} for g in groups]
    specs += [{"histories": 1500 if tier == "quick" else 40000, "maxlen": 14} for _ in range(2 if tier == "quick" else 8)]
    return specs


def run(sh, spec):
    repo.activate()
    lab = Lab()
    if "histories" in spec:
        run_histories(sh, lab, spec["histories"], spec["maxlen"])
        return
    found, unprobed = discover(lab, sh)
    sh.note("writing_methods", sorted("%s/%s/%s" % k for k in found))
    sh.note("unprobed", unprobed)
    sh.count("writing_entry_points", len([k for k in found if k[0] in spec["kinds"]]))
    for k in found:
        sh.tag("methods", k[2])
    table = {}
    for depth in spec["depths"]:
        for (kind, fk, name), has_flags in sorted(found.items()):
            if depth > 1 and "sec" not in kind:
                continue
            if kind not in spec["kinds"]:
                continue
            for v in VERBOSITIES:
                for q in (False, True):
                    for fl in (FLAGS if has_flags else (None,)):
                        case = {"kind": kind, "formatter": fk, "method": name, "verbosity": v, "quiet": q, "flags": fl, "depth": depth, "has_flags": has_flags}
                        sh.case((kind, fk, name, v, q, fl, depth), bool(fl) or q)
                        try:
                            arrived, text = run_cell(lab, kind, fk, name, has_flags, v, q, fl, depth)
                        except Exception as e:
                            sh.violate("cell-raises", case, "raised %r" % (e,))
                            continue
                        sh.count("cells")
                        sh.count("cells_arrived" if arrived else "cells_suppressed")
                        table[(kind, fk, name, depth, fl, v, q)] = arrived
                        want = (not q) and v >= lowest(fl)
                        if arrived != want:
                            sh.violate("gate", case, "%s.%s(flags=%r) at verbosity %d quiet=%s: arrived=%s (%r), expected %s" % (
                                kind, name, fl, v, q, arrived, text[:40], want))
                        # other message texts and an indentation scope: a closed gate lets nothing through,
                        # an open gate lets through exactly what the un-gated call writes
                        if fl in (None, 1, 4, 6) or q:
                            for txt, ind in ((TEXTS[1], 0), (TEXTS[2], 0), (TEXTS[3], 0), ("PROBE", 3), (TEXTS[2], 3), (TEXTS[4], 0), (TEXTS[5], 0)):
                                if name in ("clear",) and txt != TEXTS[1]:
                                    continue
                                c2 = dict(case, text=txt, indent=ind)
                                sh.case((kind, fk, name, v, q, fl, depth, txt, ind), True)
                                try:
                                    base = run_cell(lab, kind, fk, name, has_flags, 4, False, fl, depth, txt, ind)[1]
                                    got = run_cell(lab, kind, fk, name, has_flags, v, q, fl, depth, txt, ind)[1]
                                except Exception as e:
                                    sh.violate("cell-raises", c2, "raised %r" % (e,))
                                    continue
                                sh.count("variant_cells")
                                if got != (base if want else ""):
                                    sh.violate("gate", c2, "%s.%s(%r, flags=%r, indent=%d) at verbosity %d quiet=%s wrote %r, expected %r" % (
                                        kind, name, txt, fl, ind, v, q, got[:40], (base if want else "")[:40]))
    # monotonicity on what was actually observed
    for (kind, fk, name, depth, fl, v, q), arrived in table.items():
        if not arrived:
            continue
        for v2 in VERBOSITIES:
            if v2 > v and table.get((kind, fk, name, depth, fl, v2, q)) is False:
                sh.violate("monotonic", {"kind": kind, "formatter": fk, "method": name, "flags": fl, "depth": depth, "verbosity": v2, "quiet": q, "has_flags": fl is not None},
                           "shown at verbosity %d but not at %d" % (v, v2))
        if q and table.get((kind, fk, name, depth, fl, v, False)) is False:
            sh.violate("monotonic", {"kind": kind, "formatter": fk, "method": name, "flags": fl, "depth": depth, "verbosity": v, "quiet": False, "has_flags": fl is not None},
                       "shown when quiet but not when not quiet")
    if spec.get("pairs"):
        run_pairs(sh, lab, found)
    sh.sample({"kind": "sec-out", "formatter": "ansi-forced", "method": "write_line", "verbosity": 0, "quiet": False, "flags": 4})
    sh.sample({"kind": "io", "formatter": "plain", "method": "error_raw", "verbosity": 2, "quiet": True, "flags": 2})


def finalize(tier, merged):
    c = merged["counters"]
    inc = []
    shards = 1 if tier == "quick" else 1.3
    if c.get("writing_entry_points", 0) < 150 * shards:
        inc.append("reflection found only %d writing entry points" % c.get("writing_entry_points", 0))
    if c.get("history_calls", 0) < 1000:
        inc.append("too few history calls observed: %r" % c.get("history_calls"))
    if not c.get("cells_arrived") or not c.get("cells_suppressed"):
        inc.append("table is degenerate: %r" % (c,))
    notes = merged["notes"][0] if merged["notes"] else {}
    return {"inconclusive": inc, "coverage": {"writing_methods": notes.get("writing_methods", []), "unprobed": notes.get("unprobed", [])}}


def replay(sh, case):
    repo.activate()
    lab = Lab()
    if case.get("kind") in ("history", "pair"):
        sh.inconclusive_because("history / pair replay: rerun the check with the same VERIF_SEED (the record lists the steps)")
        return
    v, q, fl = case["verbosity"], case["quiet"], case["flags"]
    arrived, text = run_cell(lab, case["kind"], case["formatter"], case["method"], case.get("has_flags", fl is not None), v, q, fl, case.get("depth", 1))
    want = (not q) and v >= lowest(fl)
    if arrived != want:
        sh.violate("gate", case, "arrived=%s (%r), expected %s" % (arrived, text[:40], want))
