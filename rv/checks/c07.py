"""C07 - option and argument flags are validated and normalised consistently.

Oracle: independent validity predicates and post-conditions written from the
statement; the real constructors / parse() are run over the complete space of
flag words and over all short names over a small alphabet.
"""
import itertools
import math

from rv import repo

PROPERTY = "C07"
LEVEL = "exploration"
EXHAUSTIVE = True
RULE = (
    "exhaustive enumeration: every option flag word over the 11 defined bits + 2 undefined bits (2^13) x short name "
    "{None,'s'} x default {None,'d',['d']}; every argument flag word over 8 defined + 3 undefined bits (2^11) x 3 defaults; the same flag words x 7 defaults (incl. 0, '', False, []) through CommandConfig.add_option / add_argument, compared with the constructors; "
    "all strings of length 0..4 (quick) / 0..5 (thorough) over the name alphabet as long name, short name, argument name "
    "and alias, bare and dash-prefixed; conversion of boundary texts, objects and seeded random ints/floats by every "
    "declared type x nullable. non-trivial = flag word with >= 2 defined bits, a name of length >= 2, or a conversion "
    "input that is not a plain decimal; distinct by (kind, word, short?, default kind) / (kind, text)."
)
BOUND = {
    "quick": "2^13 option words x 2 x 3; 2^11 argument words x 3; names of length <= 4 over {a,Z,1,-,_} + 210 names with one odd character (newline, blank, NUL, case-folding and foreign letters / digits); 90 boundary texts + 4000 random numbers",
    "thorough": "same flag spaces; names of length <= 5 over {a,Z,1,-,_,e-acute} + 210 names with one odd character; 90 boundary texts + 200000 random numbers",
}
ASSUMPTIONS = [
    "REQUIRED_VALUE|OPTIONAL_VALUE together is not listed as a contradiction by the statement and is accepted by the oracle",
    "the text form of a boolean is one of the eight documented words (true/false/1/0/yes/no/on/off)",
    "an alias made of '--' followed by a single character is not generated (well-formedness of that spelling is not stated)",
]

# option bits
PL, PS, NV, RV, OV, MV = 1, 2, 4, 8, 16, 32
O_STR, O_BOOL, O_INT, O_FLOAT, O_NULL = 128, 256, 512, 1024, 2048
O_UNDEF = (64, 4096)
O_DEFINED = (PL, PS, NV, RV, OV, MV, O_STR, O_BOOL, O_INT, O_FLOAT, O_NULL)
# argument bits
A_REQ, A_OPT, A_MULTI, A_STR, A_BOOL, A_INT, A_FLOAT, A_NULL = 1, 2, 4, 16, 32, 64, 128, 256
A_UNDEF = (8, 512, 1024)
A_DEFINED = (A_REQ, A_OPT, A_MULTI, A_STR, A_BOOL, A_INT, A_FLOAT, A_NULL)


def popcount(x):
    return bin(x).count("1")


def words(bits):
    for r in range(1 << len(bits)):
        w = 0
        for i, b in enumerate(bits):
            if r >> i & 1:
                w |= b
        yield w


def option_valid(flags, short, default):
    if flags & PL and flags & PS:
        return False
    if flags & NV and flags & (RV | OV | MV):
        return False
    if flags & OV and flags & MV:
        return False
    if popcount(flags & (O_STR | O_BOOL | O_INT | O_FLOAT)) > 1:
        return False
    if flags & PS and short is None:
        return False
    valueless = bool(flags & NV) or not flags & (RV | OV | MV)
    if valueless and default is not None:
        return False
    if flags & MV and not (default is None or isinstance(default, list)):
        return False
    return True


def argument_valid(flags, default):
    if flags & A_REQ and flags & A_OPT:
        return False
    if popcount(flags & (A_STR | A_BOOL | A_INT | A_FLOAT)) > 1:
        return False
    if flags & A_REQ and default is not None:
        return False
    if flags & A_MULTI and not (default is None or isinstance(default, list)):
        return False
    return True


def option_view(o, Option):
    f = o.flags
    return (
        o.long_name, o.short_name, o.is_long_name_preferred(), o.is_short_name_preferred(),
        o.accepts_value(), o.is_value_required(), o.is_value_optional(), o.is_multi_valued(),
        bool(f & Option.STRING), bool(f & Option.BOOLEAN), bool(f & Option.INTEGER), bool(f & Option.FLOAT),
        bool(f & Option.NULLABLE), repr(o.default),
    )


def argument_view(a, Argument):
    f = a.flags
    return (
        a.name, a.is_required(), a.is_optional(), a.is_multi_valued(),
        bool(f & Argument.STRING), bool(f & Argument.BOOLEAN), bool(f & Argument.INTEGER), bool(f & Argument.FLOAT),
        bool(f & Argument.NULLABLE), repr(a.default),
    )


def build(ctor, *a, **k):
    try:
        return ctor(*a, **k), None
    except ValueError as e:
        return None, e


def check_option(sh, Option, flags, short, default):
    case = {"kind": "option", "flags": flags, "short": short, "default": default}
    defined = flags & ~(O_UNDEF[0] | O_UNDEF[1])
    nt = popcount(defined) >= 2
    sh.case(("o", flags, short, repr(default)), nt)
    try:
        o, err = build(Option, "opt", short, flags, "d", default)
    except Exception as e:  # only ValueError is a documented rejection
        sh.violate("ctor-exception-type", case, "Option(...) raised %r" % (e,))
        return
    want = option_valid(flags, short, default)
    if (o is not None) != want:
        sh.violate("ctor-validity", case, "constructed=%s but valid-by-statement=%s (%r)" % (o is not None, want, err))
        return
    if o is None:
        sh.count("option_rejected")
        return
    sh.count("option_accepted")
    f = o.flags
    nt_bits = popcount(f & (Option.STRING | Option.BOOLEAN | Option.INTEGER | Option.FLOAT))
    if nt_bits != 1:
        sh.violate("post-one-type", case, "type bits reported: %d" % nt_bits)
    if o.is_long_name_preferred() == o.is_short_name_preferred():
        sh.violate("post-one-preference", case, "long=%s short=%s" % (o.is_long_name_preferred(), o.is_short_name_preferred()))
    if o.is_short_name_preferred() and o.short_name is None:
        sh.violate("post-preference-needs-short", case, "short preferred without short name")
    if not (flags & (PL | PS)) and o.is_short_name_preferred() != (short is not None):
        sh.violate("post-default-preference", case, "default preference should follow short-name presence")
    if o.accepts_value() != (not (f & Option.NO_VALUE)):
        sh.violate("post-accepts-value", case, "accepts_value disagrees with NO_VALUE flag")
    if not o.accepts_value():
        if o.is_value_required() or o.is_value_optional() or o.is_multi_valued():
            sh.violate("post-valueless-mode", case, "value-less option reports a value mode")
        if o.default is not None:
            sh.violate("post-valueless-default", case, "value-less option has default %r" % (o.default,))
    else:
        if not (o.is_value_required() or o.is_value_optional() or o.is_multi_valued()):
            sh.violate("post-mode", case, "value-taking option reports no value mode")
    if o.is_multi_valued():
        if not o.is_value_required():
            sh.violate("post-multi-required", case, "multi-valued option does not require a value")
        if not isinstance(o.default, list):
            sh.violate("post-multi-default", case, "multi-valued default is %r" % (o.default,))
        elif o.default != (default if default is not None else []):
            sh.violate("post-default-kept", case, "default %r != given %r" % (o.default, default))
    elif o.accepts_value() and o.default != default:
        sh.violate("post-default-kept", case, "default %r != given %r" % (o.default, default))
    # explicitly requested modes are reported
    for bit, pred, name in ((RV, o.is_value_required, "required"), (OV, o.is_value_optional, "optional"), (MV, o.is_multi_valued, "multi")):
        if flags & bit and not pred():
            sh.violate("post-requested-mode", case, "requested %s not reported" % name)
    if bool(flags & O_NULL) != bool(f & Option.NULLABLE):
        sh.violate("post-nullable", case, "nullable flag not preserved")
    for bit, tb in ((O_BOOL, Option.BOOLEAN), (O_INT, Option.INTEGER), (O_FLOAT, Option.FLOAT), (O_STR, Option.STRING)):
        if flags & bit and not f & tb:
            sh.violate("post-requested-type", case, "requested type bit %d not reported" % bit)
    if (flags, short) == (defined, None):
        check_set_default_later(sh, o, case, o.is_multi_valued(), o.accepts_value(), "option")
    # undefined bits never change anything
    if flags != defined:
        o2, _ = build(Option, "opt", short, defined, "d", default)
        if o2 is None or option_view(o, Option) != option_view(o2, Option):
            sh.violate("undefined-bits", case, "undefined bits changed the object")


def check_argument(sh, Argument, flags, default):
    case = {"kind": "argument", "flags": flags, "default": default}
    defined = flags & ~(A_UNDEF[0] | A_UNDEF[1] | A_UNDEF[2])
    sh.case(("a", flags, repr(default)), popcount(defined) >= 2)
    try:
        a, err = build(Argument, "arg", flags, "d", default)
    except Exception as e:
        sh.violate("ctor-exception-type", case, "Argument(...) raised %r" % (e,))
        return
    want = argument_valid(flags, default)
    if (a is not None) != want:
        sh.violate("ctor-validity", case, "constructed=%s but valid-by-statement=%s (%r)" % (a is not None, want, err))
        return
    if a is None:
        sh.count("argument_rejected")
        return
    sh.count("argument_accepted")
    f = a.flags
    if popcount(f & (Argument.STRING | Argument.BOOLEAN | Argument.INTEGER | Argument.FLOAT)) != 1:
        sh.violate("post-one-type", case, "argument type bits != 1")
    if a.is_required() == a.is_optional():
        sh.violate("post-req-xor-opt", case, "required=%s optional=%s" % (a.is_required(), a.is_optional()))
    if a.is_required() != bool(flags & A_REQ):
        sh.violate("post-required", case, "required flag not preserved")
    if a.is_multi_valued() != bool(flags & A_MULTI):
        sh.violate("post-multi", case, "multi flag not preserved")
    if a.is_multi_valued():
        if not isinstance(a.default, list):
            sh.violate("post-multi-default", case, "multi-valued argument default is %r" % (a.default,))
        elif a.default != (default if default is not None else []):
            sh.violate("post-default-kept", case, "default %r != given %r" % (a.default, default))
    elif a.default != default:
        sh.violate("post-default-kept", case, "default %r != given %r" % (a.default, default))
    if a.is_required() and a.default not in (None, []):
        sh.violate("post-required-default", case, "required argument has default %r" % (a.default,))
    if bool(flags & A_NULL) != bool(f & Argument.NULLABLE):
        sh.violate("post-nullable", case, "nullable flag not preserved")
    for bit, tb in ((A_BOOL, Argument.BOOLEAN), (A_INT, Argument.INTEGER), (A_FLOAT, Argument.FLOAT), (A_STR, Argument.STRING)):
        if flags & bit and not f & tb:
            sh.violate("post-requested-type", case, "requested type bit %d not reported" % bit)
    if flags == defined:
        check_set_default_later(sh, a, case, a.is_multi_valued(), not a.is_required(), "argument")
    if flags != defined:
        a2, _ = build(Argument, "arg", defined, "d", default)
        if a2 is None or argument_view(a, Argument) != argument_view(a2, Argument):
            sh.violate("undefined-bits", case, "undefined bits changed the object")


def check_set_default_later(sh, obj, case, is_multi, accepts, label):
    """set_default() on a constructed object: accepted values are stored (a list for multi-valued ones), refused
    ones raise ValueError and leave the object as it was - it stays consistent either way."""
    for new in ("later", ["l1", "l2"], None, 0):
        before = obj.default
        before_copy = list(before) if isinstance(before, list) else before
        try:
            obj.set_default(new)
            ok = True
        except ValueError:
            ok = False
        except Exception as e:
            sh.violate("set-default-later", case, "%s.set_default(%r) raised %r" % (label, new, e))
            return
        sh.count("set_default_calls")
        want_ok = accepts and (isinstance(new, list) or new is None if is_multi else True)
        if ok != want_ok:
            sh.violate("set-default-later", case, "%s.set_default(%r) %s, expected it to be %s" % (label, new, "was accepted" if ok else "raised ValueError", "accepted" if want_ok else "refused"))
            return
        after = obj.default
        if not ok:
            # equal in value and type: the object may hand out a copy of a list default, so identity says nothing
            if type(after) is not type(before) or after != before_copy or (not isinstance(after, list) and after is not before):
                sh.violate("set-default-later", case, "%s.set_default(%r) was refused but the default changed from %r to %r" % (label, new, before_copy, after))
                return
        else:
            want = ([] if new is None else new) if is_multi else new
            if after != want or (is_multi and not isinstance(after, list)):
                sh.violate("set-default-later", case, "after %s.set_default(%r) the default is %r" % (label, new, after))
                return


def check_config_route(sh, Option, Argument, kind, flags, default):
    """The fluent configuration methods (CommandConfig.add_option / add_argument) accept exactly what the constructors
    accept and produce the same object (falsy defaults such as 0, '', False and [] included)."""
    from clikit.api.config.command_config import CommandConfig

    case = {"kind": "config-" + kind, "flags": flags, "default": default}
    sh.case(("config", kind, flags, repr(default)), True)
    if kind == "option":
        direct, derr = build(Option, "opt", "o", flags, "d", list(default) if isinstance(default, list) else default)
    else:
        direct, derr = build(Argument, "arg", flags, "d", list(default) if isinstance(default, list) else default)
    cfg = CommandConfig("cmd")
    try:
        if kind == "option":
            cfg.add_option("opt", "o", flags, "d", list(default) if isinstance(default, list) else default)
            via = cfg.options.get("opt")
        else:
            cfg.add_argument("arg", flags, "d", list(default) if isinstance(default, list) else default)
            via = cfg.arguments.get("arg")
        verr = None
    except ValueError as e:
        via, verr = None, e
    except Exception as e:
        sh.violate("config-route", case, "CommandConfig.add_%s raised %r" % (kind, e))
        return
    sh.count("config_route_calls")
    if (direct is None) != (via is None):
        sh.violate("config-route", case, "the constructor %s (%r) but CommandConfig.add_%s %s (%r)" % (
            "raises" if direct is None else "accepts", derr, kind, "raises" if via is None else "accepts", verr))
        return
    if direct is not None:
        a = (direct.flags, direct.default, type(direct.default).__name__)
        b = (via.flags, via.default, type(via.default).__name__)
        if a != b:
            sh.violate("config-route", case, "constructor gives flags/default %r, CommandConfig.add_%s gives %r" % (a, kind, b))


# ---- names -----------------------------------------------------------------
def is_ascii_letter(c):
    return ("a" <= c <= "z") or ("A" <= c <= "Z")


def is_name_char(c):
    return is_ascii_letter(c) or ("0" <= c <= "9") or c == "-"


def long_ok(s):
    if s.startswith("--"):
        s = s[2:]
    return len(s) >= 2 and is_ascii_letter(s[0]) and all(is_name_char(c) for c in s)


def short_ok(s):
    if s.startswith("-"):
        s = s[1:]
    return len(s) == 1 and is_ascii_letter(s)


def argname_ok(s):
    return len(s) >= 1 and is_ascii_letter(s[0]) and all(is_name_char(c) for c in s)


def alias_ok(s):
    if s.startswith("--"):
        s = s[2:]
    elif s.startswith("-"):
        s = s[1:]
    if len(s) == 1:
        return is_ascii_letter(s)
    return len(s) >= 2 and is_ascii_letter(s[0]) and all(is_name_char(c) for c in s)


def check_name(sh, cls, kind, text):
    Option, Argument, CommandOption = cls
    case = {"kind": kind, "text": text}
    sh.case((kind, text), len(text) >= 2)
    try:
        if kind == "long":
            obj, err = build(Option, text)
            want = long_ok(text)
            stripped = text[2:] if text.startswith("--") else text
            if obj is not None and obj.long_name != stripped:
                sh.violate("name-normalised", case, "long_name=%r" % obj.long_name)
        elif kind == "short":
            obj, err = build(Option, "opt", text)
            want = short_ok(text)
            stripped = text[1:] if text.startswith("-") else text
            if obj is not None and obj.short_name != stripped:
                sh.violate("name-normalised", case, "short_name=%r" % obj.short_name)
        elif kind == "cmdopt-long":
            obj, err = build(CommandOption, text)
            want = long_ok(text)
        elif kind == "cmdopt-short":
            obj, err = build(CommandOption, "opt", text)
            want = short_ok(text)
        elif kind == "argname":
            obj, err = build(Argument, text)
            want = argname_ok(text)
            if obj is not None and obj.name != text:
                sh.violate("name-normalised", case, "name=%r" % obj.name)
        elif kind == "alias":
            obj, err = build(CommandOption, "opt", None, [text])
            want = alias_ok(text)
            if obj is not None:
                bare = text[2:] if text.startswith("--") else (text[1:] if text.startswith("-") else text)
                listed = obj.short_aliases if len(bare) == 1 else obj.long_aliases
                other = obj.long_aliases if len(bare) == 1 else obj.short_aliases
                if list(listed) != [bare] or list(other):
                    sh.violate("name-normalised", case, "aliases long=%r short=%r" % (obj.long_aliases, obj.short_aliases))
        else:
            raise AssertionError(kind)
    except Exception as e:
        sh.violate("name-exception-type", case, "raised %r" % (e,))
        return
    sh.count("names_" + ("accepted" if obj is not None else "rejected"))
    if (obj is not None) != want:
        key = None
        if kind == "alias" and text.startswith("--") and want:
            key = "alias-double-dash-prefix"
        sh.violate("name-validity", case, "accepted=%s well-formed=%s (%r)" % (obj is not None, want, err), key)


# ---- conversion ------------------------------------------------------------
BOOL_WORDS = {"true": True, "1": True, "yes": True, "on": True, "false": False, "0": False, "no": False, "off": False}
BOUNDARY_TEXTS = [
    "", " ", "0", "1", "-1", "+1", "00", "007", " 5", "5 ", " 5 ", "1_000", "1__0", "_1", "1_", "1e3", "1E3", "1e-3",
    "1.", ".5", "-.5", "1.5", "-0", "-0.0", "0x10", "0b1", "0o7", "1e400", "-1e400", "inf", "-inf", "Infinity", "nan",
    "NaN", "null", "Null", "NULL", "none", "None", "true", "false", "True", "False", "TRUE", "yes", "no", "on", "off",
    "y", "n", "t", "f", "2", "-", "--", "a", "abc", "1a", "a1", "٣", "٣٤", "１", "1,5", "1 5", "\t7\n", "9" * 40,
    "-" + "9" * 40, "1" + "0" * 400, "0.1", "1e308", "1.7976931348623157e308", "5e-324", "1e-400", "½", "①",
    "1j", "1+1", "[1]", "{}", "'1'", '"1"', "\x00", "1\x00", " 1", "1 ", "\n", "1\n", "null\n", " null",
]
OBJECTS = [None, True, False, 0, 1, -7, 2 ** 70, 0.0, 1.5, -2.0, 1e300, float("inf"), float("-inf"), float("nan")]


def expect_type(kind):
    return {"string": str, "boolean": bool, "integer": int, "float": float}[kind]


def check_conversion(sh, holders, value, nontrivial=True):
    """holders: list of (label, kind, nullable, obj) where obj.parse is the real method"""
    for label, kind, nullable, obj in holders:
        case = {"kind": "convert", "holder": label, "type": kind, "nullable": nullable, "value": value if not isinstance(value, float) else repr(value)}
        sh.case(("c", label, kind, nullable, repr(value)), nontrivial)
        try:
            r = obj.parse(value)
        except ValueError:
            sh.count("convert_valueerror")
            r = ValueError
        except Exception as e:
            key = None
            if kind in ("integer", "float") and not isinstance(value, str):
                key = "numeric-conversion-of-non-text"
            sh.violate("convert-exception-type", case, "parse(%r) raised %r, only ValueError is documented" % (value, e), key)
            continue
        if r is ValueError:
            # the documented text forms must convert
            if isinstance(value, str):
                if kind == "boolean" and value in BOOL_WORDS:
                    sh.violate("convert-roundtrip", case, "boolean word rejected")
                if kind == "string":
                    sh.violate("convert-roundtrip", case, "string conversion rejected a text")
            continue
        sh.count("convert_returned")
        if r is None:
            if not nullable:
                sh.violate("convert-none", case, "parse(%r) returned None for a non-nullable %s" % (value, kind))
            continue
        T = expect_type(kind)
        if not isinstance(r, T) or (T is int and isinstance(r, bool)) or (T is float and isinstance(r, bool)):
            sh.violate("convert-type", case, "parse(%r) returned %r (%s), declared %s" % (value, r, type(r).__name__, kind))
            continue
        if isinstance(value, str):
            if kind == "boolean" and value in BOOL_WORDS and r is not BOOL_WORDS[value]:
                sh.violate("convert-roundtrip", case, "parse(%r) = %r" % (value, r))
            if kind == "string" and r != value:
                sh.violate("convert-roundtrip", case, "parse(%r) = %r" % (value, r))


def check_roundtrip_number(sh, holders, n):
    text = str(n) if isinstance(n, int) else repr(n)
    for label, kind, nullable, obj in holders:
        if kind == "integer" and isinstance(n, int) or kind == "float":
            case = {"kind": "roundtrip", "holder": label, "type": kind, "nullable": nullable, "text": text}
            sh.case(("r", label, kind, nullable, text), True)
            try:
                r = obj.parse(text)
            except Exception as e:
                sh.violate("convert-roundtrip", case, "parse(%r) raised %r" % (text, e))
                continue
            want = n if kind == "integer" else float(n)
            if type(r) is not expect_type(kind) or r != want:
                sh.violate("convert-roundtrip", case, "parse(%r) = %r, expected %r" % (text, r, want))


def make_holders(Option, Argument):
    out = []
    for kind, ob, ab in (("string", Option.STRING, Argument.STRING), ("boolean", Option.BOOLEAN, Argument.BOOLEAN),
                         ("integer", Option.INTEGER, Argument.INTEGER), ("float", Option.FLOAT, Argument.FLOAT)):
        for nullable in (False, True):
            out.append(("option", kind, nullable, Option("opt", None, Option.OPTIONAL_VALUE | ob | (Option.NULLABLE if nullable else 0))))
            out.append(("argument", kind, nullable, Argument("arg", ab | (Argument.NULLABLE if nullable else 0))))
    return out


def plan(tier, seed):
    if tier == "quick":
        return [{"part": "flags"}, {"part": "names", "maxlen": 4, "alpha": "aZ1-_"}, {"part": "convert", "n": 4000}]
    specs = [{"part": "flags"}]
    alpha = "aZ1-_é"
    for first in [""] + list(alpha):
        specs.append({"part": "names", "maxlen": 5, "alpha": alpha, "first": first})
    for i in range(8):
        specs.append({"part": "convert", "n": 25000, "sub": i})
    return specs


def classes():
    repo.activate()
    from clikit.api.args.format.argument import Argument
    from clikit.api.args.format.command_option import CommandOption
    from clikit.api.args.format.option import Option

    return Option, Argument, CommandOption


def run(sh, spec):
    Option, Argument, CommandOption = classes()
    part = spec["part"]
    if part == "flags":
        for flags in words(O_DEFINED + O_UNDEF):
            for short in (None, "s"):
                for default in (None, "d", ["d"]):
                    check_option(sh, Option, flags, short, default)
        for flags in words(A_DEFINED + A_UNDEF):
            for default in (None, "d", ["d"]):
                check_argument(sh, Argument, flags, default)
        # the fluent configuration route, with falsy defaults too
        for flags in words(O_DEFINED):
            for default in (None, "d", ["d"], 0, "", False, []):
                check_config_route(sh, Option, Argument, "option", flags, default)
        for flags in words(A_DEFINED):
            for default in (None, "d", ["d"], 0, "", False, []):
                check_config_route(sh, Option, Argument, "argument", flags, default)
        # command options only carry the two preference bits
        for flags in words((PL, PS) + O_UNDEF):
            for short in (None, "s"):
                case = {"kind": "cmdopt", "flags": flags, "short": short}
                sh.case(("co", flags, short), popcount(flags) >= 2)
                try:
                    o, err = build(CommandOption, "opt", short, None, flags)
                except Exception as e:
                    sh.violate("ctor-exception-type", case, "CommandOption raised %r" % (e,))
                    continue
                want = not (flags & PL and flags & PS) and not (flags & PS and short is None)
                if (o is not None) != want:
                    sh.violate("ctor-validity", case, "constructed=%s valid=%s" % (o is not None, want))
                elif o is not None and o.is_long_name_preferred() == o.is_short_name_preferred():
                    sh.violate("post-one-preference", case, "preference bits inconsistent")
        sh.sample({"kind": "option", "flags": RV | O_INT | O_NULL, "short": "s", "default": "d"})
        sh.sample({"kind": "argument", "flags": A_OPT | A_MULTI | A_FLOAT, "default": ["d"]})
    elif part == "names":
        alpha = spec["alpha"]
        first = spec.get("first")
        texts = []
        for n in range(0, spec["maxlen"] + 1):
            for t in itertools.product(alpha, repeat=n):
                s = "".join(t)
                if first is None or s[:1] == first:
                    texts.append(s)
        if not first:
            # characters that pattern shortcuts let through: letters that case-fold to ASCII (Kelvin sign, long s, dotted /
            # dotless i), other scripts' letters and digits, and control characters before / after a well-formed name
            odd = ["\n", "\r", " ", "\t", "\x00", "\u212a", "\u017f", "\u0130", "\u0131", "\uff41", "\u00aa", "\u0663", "\u00b2", "\u03b1", "\u2010"]
            for base in ("a", "ab", "opt-x", "Z9"):
                for o in odd:
                    texts += [base + o, o + base, base[:1] + o + base[1:]]
            texts += odd + [o + o for o in odd]
            sh.count("odd_character_names", len(odd) * 14)
        cls = (Option, Argument, CommandOption)
        for s in texts:
            for kind in ("long", "cmdopt-long"):
                check_name(sh, cls, kind, s)
                check_name(sh, cls, kind, "--" + s)
            for kind in ("short", "cmdopt-short"):
                check_name(sh, cls, kind, s)
                check_name(sh, cls, kind, "-" + s)
            check_name(sh, cls, "argname", s)
            check_name(sh, cls, "alias", s)
            check_name(sh, cls, "alias", "-" + s)
            if len(s) != 1:
                check_name(sh, cls, "alias", "--" + s)
        sh.sample({"kind": "alias", "text": "--aZ"})
        sh.sample({"kind": "long", "text": "a-1"})
    elif part == "convert":
        holders = make_holders(Option, Argument)
        if not spec.get("sub"):
            for t in BOUNDARY_TEXTS:
                check_conversion(sh, holders, t)
            for o in OBJECTS:
                check_conversion(sh, holders, o)
            for w in BOOL_WORDS:
                check_conversion(sh, holders, w)
        rng = sh.rng
        for i in range(spec["n"]):
            mode = i % 4
            if mode == 0:
                n = rng.randint(-10 ** rng.randint(1, 40), 10 ** rng.randint(1, 40))
            elif mode == 1:
                n = rng.uniform(-1, 1) * 10 ** rng.randint(-300, 300)
            elif mode == 2:
                n = rng.randint(-1000, 1000)
            else:
                n = float.fromhex("0x1.%013xp%d" % (rng.getrandbits(52), rng.randint(-1022, 1023))) * rng.choice((1, -1))
            if isinstance(n, float) and (math.isnan(n) or math.isinf(n)):
                continue
            check_roundtrip_number(sh, holders, n)
        sh.sample({"kind": "convert", "holder": "option", "type": "integer", "nullable": False, "value": " 5 "})
    else:
        raise AssertionError(part)


def finalize(tier, merged):
    c = merged["counters"]
    inc = []
    for k in ("option_accepted", "option_rejected", "argument_accepted", "argument_rejected", "names_accepted", "names_rejected", "convert_returned", "convert_valueerror"):
        if not c.get(k):
            inc.append("monitor counter %s is zero: the deciding oracle never saw that outcome" % k)
    return {"inconclusive": inc}


def replay(sh, case):
    Option, Argument, CommandOption = classes()
    k = case["kind"]
    if k == "option":
        check_option(sh, Option, case["flags"], case["short"], case["default"])
    elif k == "argument":
        check_argument(sh, Argument, case["flags"], case["default"])
    elif k in ("long", "short", "cmdopt-long", "cmdopt-short", "argname", "alias"):
        check_name(sh, (Option, Argument, CommandOption), k, case["text"])
    elif k in ("convert", "roundtrip"):
        holders = [h for h in make_holders(Option, Argument) if h[0] == case["holder"] and h[1] == case["type"] and h[2] == case["nullable"]]
        v = case.get("value", case.get("text"))
        if isinstance(v, str) and v in ("inf", "-inf", "nan") and k == "convert" and case.get("_float"):
            v = float(v)
        if k == "convert":
            check_conversion(sh, holders, v)
        else:
            n = int(v) if case["type"] == "integer" else float(v)
            check_roundtrip_number(sh, holders, n)
