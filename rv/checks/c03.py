"""C03 - the resolver selects the deepest command named by the leading tokens.

Oracle: a reference walk over the *configuration tree* (not over the library's
collections) + three metamorphic relations (alias substitution, options after
the path, arbitrary tail after '--').  Whether a command's format accepts a
line is asked of the real Command.parse (the parser is judged by C01/C02).
"""
from rv import repo
from rv.gen import tree as T
from rv.gen.choose import EnumChooser, RandomChooser

PROPERTY = "C03"
LEVEL = "exploration"
EXHAUSTIVE = False
RULE = (
    "random command trees (depth <= 3, fan-out <= 3, 0-2 aliases, default / anonymous / hidden / disabled commands, "
    "arguments and options stacked on the parent's format) and, in thorough, every tree of <= 3 top-level leaf commands over "
    "the kind set; per tree: every full path, every proper prefix, a wrong component at each position, path followed by a "
    "sibling-of-ancestor name, path + positionals, path + options, '--' followed by command names, empty line, options "
    "only; each line also with aliases substituted. Compared: selected command (full name path), its Args against "
    "Command.parse, or the exception class; undefined-command lines are also sent through run() with recording handlers. "
    "Also: a line that is exactly a path plus one value per required argument must be accepted by its command (independent of the parser's own verdict); the same argv list wrapped twice resolves alike and is left unchanged; empty tokens, short clusters in front of the path, replaced aliases, disabled / anonymous sub-command names; a configured command the application does not know is a violation. "
    "non-trivial = tree of depth >= 2 or with a default/anonymous/hidden node, and a line with >= 1 token; distinct by "
    "(tree shape, line shape)."
)
BOUND = {"quick": "400 random trees x ~35 lines", "thorough": "96000 random trees x ~35 lines + all 2400 small trees of 1-3 top-level commands over 7 kinds"}
ASSUMPTIONS = [
    "default and anonymous commands are leaves in generated trees (recursion into the default of a default is not stated)",
    "an empty string is not generated as a leading token (whether '' names no command is not stated)",
    "sibling names and aliases never collide",
]


def named(nodes):
    return [n for n in nodes if n["kind"] not in ("anon", "disabled")]


def lookup(nodes, tok):
    for n in named(nodes):
        if n["name"] == tok or tok in n["aliases"]:
            return n
    return None


def defaults(nodes):
    return [n for n in nodes if n["kind"] in ("default", "anon")]


def reference(tree, toks, parsable):
    lead = []
    for t in toks:
        if t == "--" or t.startswith("-"):
            break
        lead.append(t)
    path = []
    nodes = tree
    cur = None
    for t in lead:
        n = lookup(nodes, t)
        if n is None:
            break
        cur = n
        path.append(n["name"])
        nodes = n["subs"]
    if cur is None:
        if lead:
            return ("undefined", lead[0])
        ds = defaults(tree)
        if not ds:
            return ("nodefault",)
        for d in ds:
            if parsable([d["name"]]):
                return ("cmd", [d["name"]])
        return ("cmd", [ds[0]["name"]])
    ds = defaults(cur["subs"])
    for d in ds:
        if parsable(path + [d["name"]]):
            return ("cmd", path + [d["name"]])
    if ds:
        return ("cmd", path + [ds[0]["name"]])
    return ("cmd", path)


class Env(object):
    def __init__(self):
        self.api = T.load_api()
        from clikit.api.args.exceptions import CannotParseArgsException, NoSuchOptionException
        from clikit.api.io import IO, Input, Output
        from clikit.api.resolver.exceptions import CannotResolveCommandException
        from clikit.args import ArgvArgs
        from clikit.io.input_stream import StringInputStream
        from clikit.io.output_stream import BufferedOutputStream

        self.CPA, self.NSO, self.CRC = CannotParseArgsException, NoSuchOptionException, CannotResolveCommandException
        self.ArgvArgs = ArgvArgs
        self.BufferedOutputStream = BufferedOutputStream

        def io_factory(app, args, i, o, e):
            return IO(Input(i or StringInputStream("")), Output(o), Output(e))

        self.io_factory = io_factory
        self.StringInputStream = StringInputStream


def lines_for(tree, rng):
    """(tokens, shape) pairs."""
    out = [([], "empty"), (["--"], "dd-only"), (["zzz"], "unknown"), (["zzz", tree[0]["name"]], "unknown+valid"),
           # an empty token (app "" ...) is a leading token like any other: it names no command
           ([""], "empty-token-only"), (["", tree[0]["name"]], "empty-token+valid")]
    top = [n["name"] for n in tree if n["kind"] != "disabled"]
    allpaths = list(T.walk(tree))
    for p, n in allpaths:
        for use_alias in (False, True):
            names = []
            for x in p:
                names.append(rng.choice(x["aliases"]) if use_alias and x["aliases"] else x["name"])
            tag = "alias" if use_alias else "name"
            fill = T.positional_fill(p)
            out.append((names, "path-" + tag))
            out.append((names + fill, "path+args-" + tag))
            out.append((names + fill + ["x1", "x2"], "path+extra-" + tag))
            if n["opts"]:
                o = rng.choice(n["opts"])
                val = [] if o["mode"] == "flag" else ["ov"]
                form = rng.choice(["long", "short"]) if o["short"] else "long"
                otoks = (["--" + o["long"]] + val) if form == "long" else (["-" + o["short"]] + val)
                out.append((names + otoks + fill, "path+opt-first-" + tag))
                out.append((names + fill + otoks, "path+opt-last-" + tag))
            for o in n["opts"]:
                if o.get("shadows"):
                    out.append((names + ["--" + o["long"]] + fill, "path+option-named-like-subcommand-" + tag))
                    out.append((names + fill + ["--" + o["long"]], "path+args+option-named-like-subcommand-" + tag))
                    # ... as the second of two options, and after the '--' separator
                    other = next((x for x in n["opts"] if x is not o and x["mode"] == "flag"), None)
                    if other is not None:
                        out.append((names + ["--" + other["long"], "--" + o["long"]] + fill, "path+two-options-second-named-like-subcommand-" + tag))
                    out.append((names + ["--unknownopt", "--" + o["long"]], "path+unknown-option+option-named-like-subcommand-" + tag))
                    out.append((names + fill + ["--", "--" + o["long"]], "path+dd+option-named-like-subcommand-" + tag))
            if not use_alias:
                # a disabled (or anonymous) sub-command's name or alias after its parent's path is not a name
                for sub in n["subs"]:
                    if sub["kind"] in ("disabled", "anon"):
                        for w in [sub["name"]] + sub["aliases"][:1]:
                            out.append((names + [w], "path+not-a-name-" + sub["kind"]))
                            out.append((names + [w] + T.positional_fill(p + (sub,)), "path+not-a-name+args-" + sub["kind"]))
            if not use_alias:
                # options in front of the path: there are no leading tokens, whatever follows
                out.append((["-x"] + names + fill, "option-before-path"))
                out.append((["-xyz"] + names + fill, "short-cluster-before-path"))
                out.append((["-x5"] + names + fill, "short-with-value-before-path"))
                out.append((["--zz=1"] + names, "long-option-before-path"))
                if n["opts"]:
                    o = n["opts"][0]
                    out.append((["--" + o["long"]] + names + fill, "own-option-before-path"))
            if len(p) >= 2:
                # an option of an ancestor, in '--name=value' / '--flag' form, before the last path component:
                # the walk stops there, the rest of the path are plain arguments of the ancestor
                for anc in p[:-1]:
                    for o in anc["opts"]:
                        spelled = "--" + o["long"] if o["mode"] == "flag" else "--%s=ov" % o["long"]
                        k = p.index(anc) + 1
                        out.append((names[:k] + [spelled] + names[k:] + fill, "option-inside-path-" + tag))
                        break
            if not use_alias:
                for i in range(len(names)):
                    out.append((names[:i] + ["bogus"] + names[i:], "wrong@%d" % i))
                # a name of a sibling of an ancestor as positional after the path
                if top:
                    out.append((names + fill + [rng.choice(top)], "path+ancestor-sibling"))
                out.append((names + fill + ["--"] + [rng.choice(top)] + ["-x", "--zz"], "path+dd-tail"))
                out.append((["--"] + names, "dd+path"))
                out.append((names + [""], "path+empty-token"))
                out.append((names + ["", "--unknownopt"], "path+empty-token+unknown-option"))
                out.append((names + ["--unknownopt"], "path+unknown-option"))
        # disabled / anonymous names are not names
    for n in tree:
        if n["kind"] in ("disabled", "anon"):
            out.append(([n["name"]], "not-a-name-" + n["kind"]))
        # an alias list that was replaced while configuring (every fourth command: 'old<name>') names nothing
        out.append((["old" + n["name"]], "replaced-alias"))
    if any(n["opts"] for _, n in allpaths):
        out.append((["--" + next(n for _, n in allpaths if n["opts"])["opts"][0]["long"]], "option-only"))
    return out


def judge_tree(sh, env, tree, rng, record_tree=True):
    log = T.HandlerLog()
    env.built = getattr(env, "built", 0) + 1
    try:
        app, cfg = T.build_app(tree, env.api, log, io_factory=env.io_factory, share_resolver=env.built % 2 == 0)
    except Exception as e:
        sh.violate("tree-build", {"tree": tree}, "valid generated tree rejected: %r" % (e,))
        return
    shape = T.tree_shape(tree)
    rich = T.depth_of(tree) >= 2 or any(n["kind"] in ("default", "anon", "hidden") for _, n in T.walk(tree))
    for toks, lshape in lines_for(tree, rng):
        rec = {"tree": tree, "tokens": toks}
        judge_line(sh, env, app, log, tree, toks, rec)
        sh.case((shape, lshape), rich and bool(toks))
        sh.tag("line_shapes", lshape.split("@")[0])


def outcome_of_parse(env, cmd, raw):
    try:
        a = cmd.parse(raw)
        return ("ok", a.arguments(True), a.options(True))
    except (env.CPA, env.NSO, ValueError) as e:
        return ("exc", type(e).__name__, str(e))


def wellformed_path(tree, toks):
    """The canonical names of the command a line spells when the line is, by construction, exactly a path of names /
    aliases followed by one value per required argument along it (and no node on the path wants more): such a line
    is well-formed for that command whatever the parser says.  None for any other line."""
    nodes, path = tree, []
    i = 0
    while i < len(toks):
        n = lookup(nodes, toks[i])
        if n is None:
            break
        path.append(n)
        nodes = n["subs"]
        i += 1
    if not path or any(t.startswith("-") or t == "" for t in toks):
        return None
    if any(a["kind"] == "req" and a["multi"] for n in path for a in n["args"]):
        return None
    if list(toks[i:]) != T.positional_fill(path):
        return None
    return [n["name"] for n in path]


class CommandMissing(Exception):
    pass


def judge_line(sh, env, app, log, tree, toks, rec):
    try:
        return _judge_line(sh, env, app, log, tree, toks, rec)
    except CommandMissing as e:
        sh.violate("command-missing", rec, "the application does not know the configured (enabled) command %s" % (e,))


def find_cmd(app, path):
    try:
        return T.find_command(app, path)
    except Exception as e:
        raise CommandMissing("%r: %r" % (path, e))


def _judge_line(sh, env, app, log, tree, toks, rec):
    argv = ["prog"] + list(toks)
    raw = env.ArgvArgs(argv)
    if argv != ["prog"] + list(toks):
        sh.violate("argv-list-changed", rec, "wrapping the list %r as ArgvArgs changed it to %r" % (["prog"] + list(toks), argv))
        return

    def parsable(path):
        try:
            find_cmd(app, path).parse(raw)
            return True
        except env.CPA:
            return False

    try:
        want = reference(tree, toks, parsable)
    except (env.NSO, ValueError) as e:
        # a default candidate's parse raised something that is not the cannot-parse error: the same must escape
        want = ("exc", type(e).__name__, str(e))
    try:
        r = app.resolve_command(raw)
        got = ("cmd", r.command.full_name.split(" "))
        got_args = ("ok", r.args.arguments(True), r.args.options(True))
    except env.CRC as e:
        got = ("cannot-resolve", str(e))
    except (env.CPA, env.NSO, ValueError) as e:
        got = ("exc", type(e).__name__, str(e))
    except Exception as e:
        sh.violate("resolve-exception-type", rec, "resolve_command raised %r" % (e,))
        return
    sh.count("resolutions")
    try:
        r2 = app.resolve_command(env.ArgvArgs(argv))
        again = ("cmd", r2.command.full_name.split(" "))
    except env.CRC as e:
        again = ("cannot-resolve", str(e))
    except (env.CPA, env.NSO, ValueError) as e:
        again = ("exc", type(e).__name__, str(e))
    except Exception as e:
        again = ("other", repr(e))
    if again != got:
        sh.violate("same-list-twice", rec, "the same argv list wrapped a second time resolves to %r, the first time to %r" % (again, got))
        return
    sh.count("second_wraps")
    if want[0] == "cmd":
        po = outcome_of_parse(env, find_cmd(app, want[1]), raw)
        if po[0] == "exc" and wellformed_path(tree, toks) == want[1]:
            sh.violate("wellformed-line-rejected", rec, "the line is the path %r plus one value per required argument, its command rejects it: %r (resolution: %r)" % (want[1], po, got))
            return
        if po[0] == "ok":
            sh.count("wellformed_accepted" if wellformed_path(tree, toks) == want[1] else "other_accepted")
        if po[0] == "exc":
            if got != po:
                sh.violate("selection", rec, "expected %r whose format rejects the line with %s; got %r" % (want[1], po[1], got))
            else:
                sh.count("selected_but_unparsable")
            return
        if got != ("cmd", want[1]):
            sh.violate("selection", rec, "selected %r, the walk over the configuration selects %r" % (got, want[1]))
            return
        if repr(got_args) != repr(po):
            sh.violate("selected-args", rec, "resolved args %r differ from the command's own parse %r" % (got_args, po))
        sh.count("selected")
    elif want[0] in ("undefined", "nodefault"):
        if got[0] != "cannot-resolve":
            sh.violate("undefined-command", rec, "expected an undefined-command error, got %r" % (got,))
            return
        if want[0] == "undefined" and want[1] not in got[1]:
            sh.violate("undefined-command", rec, "error %r does not name the token %r" % (got[1], want[1]))
        sh.count("undefined")
        # nothing run: through run() with recording handlers
        log.calls = []
        out, err = env.BufferedOutputStream(), env.BufferedOutputStream()
        try:
            status = app.run(env.ArgvArgs(["prog"] + list(toks)), env.StringInputStream(""), out, err)
        except BaseException as e:
            sh.violate("undefined-command-run", rec, "run raised %r" % (e,))
            return
        if not isinstance(status, int) or status == 0 or log.calls:
            sh.violate("undefined-command-run", rec, "run returned %r with %d handler invocation(s)" % (status, len(log.calls)))
        sh.count("undefined_runs")
    else:
        if got != want:
            sh.violate("selection", rec, "expected exception %r, got %r" % (want, got))


KINDS = ["plain", "default", "anon", "hidden", "disabled"]


def similar_names_tree():
    """Command names and aliases that are near one another, and first tokens that are near them without being one:
    the undefined-command report looks for similar names."""
    def leaf(name, aliases=(), kind="plain"):
        return dict(name=name, aliases=list(aliases), kind=kind, desc="d", help=None, subs=[], opts=[],
                    args=[dict(name=name + "rest", kind="opt", multi=True, desc="d", default=None)])

    tree = [leaf("start"), leaf("stop"), leaf("stats", ["st"]), leaf("status", ["stat-us"]), leaf("restart", ["rs"], "hidden"), leaf("star", [], "disabled")]
    taken = set()
    for n in tree:
        if n["kind"] != "disabled":
            taken.update([n["name"]] + n["aliases"])
    toks = set()
    for w in sorted(taken) + ["star"]:
        for i in range(len(w) + 1):
            toks.add(w[:i] + "x" + w[i:])  # insertion
            if i < len(w):
                toks.add(w[:i] + w[i + 1:])  # deletion
                toks.add(w[:i] + "z" + w[i + 1:])  # substitution
            for j in range(i + 2, len(w) + 1):
                toks.add(w[i:j])  # substring
    toks = sorted(t for t in toks if t and t not in taken and not t.startswith("-"))
    return tree, toks


def small_trees():
    """All trees of 1-3 top-level leaf commands over the kind set, the first plain
    command carrying one sub-command of each kind in turn."""
    import itertools

    out = []
    for n in (1, 2, 3):
        for kinds in itertools.product(KINDS, repeat=n):
            for subkind in [None] + KINDS:
                tree = []
                for i, k in enumerate(kinds):
                    node = dict(name="c%02dx" % (i + 1), aliases=["k%02d0" % (i + 1)] if i % 2 == 0 else [], kind=k, desc="d", help=None, subs=[],
                                args=[dict(name="c%02dxrest" % (i + 1), kind="opt", multi=True, desc="d", default=None)] if i != 1 else
                                [dict(name="c02xreq0", kind="req", multi=False, desc="d", default=None)],
                                opts=[dict(long="c%02dxo0" % (i + 1), short=None, mode="flag", desc="d", default=None, prefer="auto")])
                    tree.append(node)
                if subkind is not None:
                    host = next((x for x in tree if x["kind"] in ("plain", "hidden")), None)
                    if host is None:
                        continue
                    host["args"] = []
                    host["subs"] = [dict(name="c09x", aliases=["k090"], kind=subkind, desc="d", help=None, subs=[], opts=[],
                                         args=[dict(name="c09xrest", kind="opt", multi=True, desc="d", default=None)])]
                out.append(tree)
    return out


def plan(tier, seed):
    if tier == "quick":
        return [{"part": "random", "n": 100} for _ in range(4)] + [{"part": "small", "slice": [0, 8]}]
    return [{"part": "random", "n": 8000} for _ in range(12)] + [{"part": "small", "slice": [i, 4]} for i in range(4)]


def run(sh, spec):
    repo.activate()
    env = Env()
    rng = sh.rng
    if spec["part"] == "random":
        ch = RandomChooser(rng)
        for i in range(spec["n"]):
            tree = T.gen_tree(ch)
            judge_tree(sh, env, tree, rng)
            sh.count("trees")
            if i < 1:
                sh.sample({"tree": tree, "lines": [l for l, _ in lines_for(tree, rng)][:6]})
    else:
        i, n = spec["slice"]
        if i == 0:
            tree, toks = similar_names_tree()
            log = T.HandlerLog()
            app, cfg = T.build_app(tree, env.api, log, io_factory=env.io_factory)
            for t in toks:
                for line in ([t], [t, "start"], [t, "--", "stop"]):
                    judge_line(sh, env, app, log, tree, line, {"tree": "similar-names", "tokens": line})
                    sh.case(("similar", tuple(line)), True)
                    sh.count("near_miss_lines")
            sh.tag("line_shapes", "near-miss-first-token")
            # a chain of defaults: server -> add (default) -> user (default / anonymous): the walk continues ONE step from the named command
            for inner_kind in ("default", "anon"):
                def leaf(name, kind="plain", subs=(), aliases=()):
                    return dict(name=name, aliases=list(aliases), kind=kind, desc="d", help=None, subs=list(subs), opts=[],
                                args=[] if subs else [dict(name=name + "rest", kind="opt", multi=True, desc="d", default=None)])

                tree = [leaf("server", subs=[leaf("add", "default", subs=[leaf("user", inner_kind), leaf("group")]), leaf("del")], aliases=["srv"]), leaf("other")]
                log = T.HandlerLog()
                app, cfg = T.build_app(tree, env.api, log, io_factory=env.io_factory)
                for line in (["server"], ["srv"], ["server", "x"], ["server", "add"], ["server", "add", "user"], ["server", "add", "group"], ["server", "--", "add"], ["server", "del"], []):
                    judge_line(sh, env, app, log, tree, line, {"tree": "default-chain-" + inner_kind, "tokens": line})
                    sh.case(("default-chain", inner_kind, tuple(line)), True)
            sh.tag("line_shapes", "default-chain")
        st = small_trees()
        for tree in st[i::n]:
            judge_tree(sh, env, tree, rng)
            sh.count("trees")
            sh.count("small_trees")


def finalize(tier, merged):
    c = merged["counters"]
    inc = []
    for k in ("resolutions", "selected", "undefined", "undefined_runs", "selected_but_unparsable", "wellformed_accepted", "second_wraps"):
        if not c.get(k):
            inc.append("counter %s is zero" % k)
    return {"inconclusive": inc}


def replay(sh, case):
    repo.activate()
    env = Env()
    log = T.HandlerLog()
    app, cfg = T.build_app(case["tree"], env.api, log, io_factory=env.io_factory)
    judge_line(sh, env, app, log, case["tree"], case["tokens"], case)
