"""C01 - parsing a well-formed command line recovers exactly the intended values.

The generator (rv/gen/argline.py) starts from the assignment and derives the
command line, so the expected result is known by construction.  The oracle
compares every public read path of the returned Args with it, in strict and
lenient mode, for argv-style and string-style raw arguments.
"""
from rv import repo
from rv.gen import argline, quoting
from rv.gen.choose import EnumChooser, RandomChooser

PROPERTY = "C01"
LEVEL = "exploration"
EXHAUSTIVE = False
RULE = (
    "formats are generated (0-5 options over mode x type x nullable x short x default, 0-4 arguments required/optional/"
    "multi and typed, 0-2 command names with aliases, with/without base format); an assignment is drawn, then a spelling "
    "(--n=v, --n v, -nv, -n v, grouped shorts incl. trailing value option, options anywhere among positionals, '--' tail, "
    "names / aliases / omitted names); the line is parsed strict+lenient x argv+string and every read path is compared "
    "with the assignment. Part 'enum' walks the complete decision tree of the generator for each catalogue format "
    "(64 one-option kinds x 8 argument shapes, 144 two-option formats) up to a per-format cap; part 'random' is seeded. "
    "Also: arguments named like the parser's placeholders (cmd11, cmd12, cmd21) under a CPU-time budget; string values with line feed, tab and combining marks. "
    "non-trivial = line with >=1 option and >=1 positional, or grouping / '--' / omitted names; distinct by "
    "(format shape, spelling pattern, names mode)."
)
BOUND = {
    "quick": "enum: 512+144 catalogue formats, <=60 lines each (decision tree walked depth-first); random: 2 shards x 2500 formats x 3 lines",
    "thorough": "enum: 656 catalogue formats, <=4000 lines each; random: 14 shards x 12000 formats x 4 lines",
}
ASSUMPTIONS = [
    "generated lines stay inside the unambiguous grammar: option values non-empty, separate-token values do not start with '-', "
    "a bare optional-value option is followed by an option, '--' or the end and only generated when it has a default or is nullable, "
    "positionals starting with '-' only after '--', omitted command names only with positionals disjoint from names/aliases",
    "strict and lenient results must be equal on these lines",
]


def judge(sh, api, f, fmt, case, raw_kinds=("argv", "string")):
    toks = case["tokens"]
    exp_o, exp_a = case["exp_opts"], case["exp_args"]
    full_o, full_a = argline.with_defaults(f, exp_o, exp_a)
    rec = {"format": f, "tokens": toks, "exp_opts": exp_o, "exp_args": exp_a}
    for kind in raw_kinds:
        for lenient in (False, True):
            sh.case((argline.format_shape(f), tuple(case.get("pattern", ())), case.get("mode"), kind, lenient), case.get("nontrivial", True))
            where = "%s/%s" % (kind, "lenient" if lenient else "strict")
            try:
                if kind == "argv":
                    raw = api.ArgvArgs(["prog"] + list(toks))
                else:
                    raw = api.StringArgs(quoting.quote_line(toks))
                r = api.DefaultArgsParser().parse(raw, fmt, lenient)
            except Exception as e:
                sh.violate("parse-raises", dict(rec, raw=kind, lenient=lenient), "%s: %r" % (where, e))
                continue
            sh.count("parses")
            probs = []
            pos_probs = []
            short_probs = []
            try:
                if not argline.same(r.options(False), exp_o):
                    probs.append("options(False)=%r expected %r" % (r.options(False), exp_o))
                if not argline.same(r.arguments(False), exp_a):
                    probs.append("arguments(False)=%r expected %r" % (r.arguments(False), exp_a))
                if not argline.same(r.options(True), full_o):
                    probs.append("options(True)=%r expected %r" % (r.options(True), full_o))
                if not argline.same(r.arguments(True), full_a):
                    probs.append("arguments(True)=%r expected %r" % (r.arguments(True), full_a))
                if not argline.same(r.options(), full_o) or not argline.same(r.arguments(), full_a):
                    probs.append("options()/arguments() without parameter do not include defaults")
            except Exception as e:
                probs.append("listing raised %r" % (e,))
            for o in f["opts"]:
                try:
                    v = r.option(o["long"])
                    if not argline.same(v, full_o[o["long"]]):
                        probs.append("option(%r)=%r expected %r" % (o["long"], v, full_o[o["long"]]))
                    if o["short"]:
                        v = r.option(o["short"])
                        if not argline.same(v, full_o[o["long"]]):
                            probs.append("option(%r)=%r expected %r" % (o["short"], v, full_o[o["long"]]))
                    if r.is_option_set(o["long"]) != (o["long"] in exp_o):
                        probs.append("is_option_set(%r)=%r" % (o["long"], r.is_option_set(o["long"])))
                    if o["short"] and r.is_option_set(o["short"]) != (o["long"] in exp_o):
                        short_probs.append("is_option_set(%r)=%r but is_option_set(%r)=%r" % (o["short"], r.is_option_set(o["short"]), o["long"], r.is_option_set(o["long"])))
                    if not r.is_option_defined(o["long"]) or (o["short"] and not r.is_option_defined(o["short"])):
                        probs.append("is_option_defined false for %r" % o["long"])
                    sh.count("option_reads")
                except Exception as e:
                    probs.append("option access %r raised %r" % (o["long"], e))
            for i, a in enumerate(f["args"]):
                for ref in (a["name"], i):
                    pl = pos_probs if isinstance(ref, int) else probs
                    try:
                        v = r.argument(ref)
                        if not argline.same(v, full_a[a["name"]]):
                            pl.append("argument(%r)=%r expected %r" % (ref, v, full_a[a["name"]]))
                        s = r.is_argument_set(ref)
                        if s != (a["name"] in exp_a):
                            pl.append("is_argument_set(%r)=%r" % (ref, s))
                        sh.count("argument_reads")
                    except Exception as e:
                        pl.append("argument access %r raised %r" % (ref, e))
            if probs:
                sh.violate("assignment", dict(rec, raw=kind, lenient=lenient), where + ": " + "; ".join(probs[:4]))
            if short_probs:
                sh.violate("short-name-access", dict(rec, raw=kind, lenient=lenient), where + ": " + "; ".join(short_probs[:4]))
            if pos_probs:
                sh.violate("positional-access", dict(rec, raw=kind, lenient=lenient), where + ": " + "; ".join(pos_probs[:4]))

def plan(tier, seed):
    if tier == "quick":
        specs = [{"part": "enum", "slice": [i, 4], "cap": 60} for i in range(4)]
        specs += [{"part": "random", "formats": 2500, "lines": 3} for _ in range(2)]
        return specs
    specs = [{"part": "enum", "slice": [i, 8], "cap": 4000} for i in range(8)]
    specs += [{"part": "random", "formats": 12000, "lines": 4} for _ in range(14)]
    return specs


def judge_reserved_names(sh, api):
    """Arguments called like the placeholders the parser makes up for command names (cmd11, cmd12, cmd21): the parser
    has to step aside, under a CPU budget (stepping aside is a loop)."""
    from rv.instruments.cpubudget import CpuBudgetExceeded, cpu_budget

    A, CN = api.Argument, api.CommandName
    for cmds, names in (([CN("server")], ["cmd11", "cmd12"]), ([CN("server"), CN("add", ["plus"])], ["cmd11", "cmd21", "cmd12"]), ([CN("server")], ["cmd-11", "cmd1"])):
        fmt = api.ArgsFormat(cmds + [A(n, A.REQUIRED if k == 0 else A.OPTIONAL) for k, n in enumerate(names)])
        path = [c.string for c in cmds]
        for values in (["v1"], ["v%d" % k for k in range(len(names))]):
            for lenient in (False, True):
                rec = {"kind": "reserved-argument-names", "commands": path, "arguments": names, "tokens": path + values, "lenient": lenient}
                sh.case(("reserved", tuple(path), tuple(names), len(values), lenient), True)
                want = dict((n, values[k] if k < len(values) else None) for k, n in enumerate(names))
                try:
                    with cpu_budget(5.0):
                        r = api.DefaultArgsParser().parse(api.ArgvArgs(["prog"] + path + values), fmt, lenient)
                    got = dict((n, r.argument(n)) for n in names)
                except CpuBudgetExceeded:
                    sh.violate("parse-does-not-terminate", rec, "parsing used 5 s of CPU time without finishing")
                    return
                except Exception as e:
                    sh.violate("parse-raises", rec, "argv/%s: %r" % ("lenient" if lenient else "strict", e))
                    continue
                sh.count("reserved_name_parses")
                if got != want:
                    sh.violate("wrong-values", rec, "arguments %r, intended %r" % (got, want))


def run(sh, spec):
    repo.activate()
    api = argline.Api()
    if spec["part"] == "enum" and spec["slice"][0] == 0:
        judge_reserved_names(sh, api)
    if spec["part"] == "enum":
        cat = argline.one_option_formats() + argline.two_option_formats()
        i, n = spec["slice"]
        complete = 0
        for f in cat[i::n]:
            fmt = api.build(f)
            ch = EnumChooser()
            k = 0
            done = False
            while True:
                case = argline.gen_case(f, ch, small=True)
                if case is not None:
                    judge(sh, api, f, fmt, case, ("argv",) if k % 4 else ("argv", "string"))
                    if k == 0:
                        sh.sample({"format": f, "tokens": case["tokens"], "exp_opts": case["exp_opts"], "exp_args": case["exp_args"]})
                else:
                    sh.count("outside_grammar_skipped")
                k += 1
                if not ch.advance():
                    done = True
                    break
                if k >= spec["cap"]:
                    break
            complete += done
            sh.count("enum_formats")
        sh.count("enum_formats_fully_enumerated", complete)
    else:
        ch = RandomChooser(sh.rng)
        for i in range(spec["formats"]):
            f = argline.gen_format(ch)
            try:
                fmt = api.build(f)
            except Exception as e:
                sh.violate("format-build", {"format": f}, "valid generated format rejected: %r" % (e,))
                continue
            for j in range(spec["lines"]):
                case = argline.gen_case(f, ch)
                if case is None:
                    sh.count("outside_grammar_skipped")
                    continue
                judge(sh, api, f, fmt, case)
                sh.tag("names_mode", case["mode"])
                for p in case["pattern"]:
                    sh.tag("spelling_forms", p[:2] if p[0] in "GL S" else p)
                if i < 2 and j == 0:
                    sh.sample({"format": f, "tokens": case["tokens"], "exp_opts": case["exp_opts"], "exp_args": case["exp_args"]})


def finalize(tier, merged):
    c = merged["counters"]
    inc = []
    if c.get("parses", 0) < 1000 or not c.get("option_reads") or not c.get("argument_reads"):
        inc.append("too few parses / reads observed: %r" % (c,))
    return {"inconclusive": inc}


def replay(sh, case):
    repo.activate()
    api = argline.Api()
    f = case["format"]
    fmt = api.build(f)
    c = {"tokens": case["tokens"], "exp_opts": case["exp_opts"], "exp_args": case["exp_args"]}
    judge(sh, api, f, fmt, c, (case["raw"],) if "raw" in case else ("argv", "string"))
