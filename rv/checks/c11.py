"""C11 - decoration changes only the look: same text, right codes, none when plain.

Four monitors at the stream / formatter boundary:
  messages  balanced markup ASTs: stripped ANSI == plain == remove_format == intended text; per-character SGR state
            equals the style on top of the tag stack; undecorated outputs emit no ESC and no registered markup
  styles    every colour/attribute combination -> exactly its SGR codes, through the three ways of supplying a style
  lines     every line-writing method (found by reflection) emits the text followed by exactly one newline
  indent    nested indentation scopes on IO and on a single output, normal and exceptional exits
"""
import inspect
import itertools
import re

from rv import repo
from rv.gen.choose import RandomChooser

PROPERTY = "C11"
LEVEL = "exploration"
EXHAUSTIVE = {"quick": False, "thorough": False}
RULE = (
    "messages: random balanced markup ASTs (depth <= 3) over registered tags, inline <fg=..;bg=..;options=..> tags closed by "
    "</> or by name, unknown tags, '<' / '>' as plain characters, backslash-escaped tags (alone, beside and inside styled runs), newlines, non-ASCII; a case is kept only if the tag regex "
    "finds exactly the intended tags. styles: fg x bg x 2^7 attribute sets (10x10x128 quick, 18x18x128 thorough) through "
    "StyleSet at construction / add_style / format(text, style=) with and without other tags. lines: every public method "
    "whose name ends in _line or _line_raw on IO, BufferedIO, Output, SectionOutput and section-IO x ANSI/plain x tagged/"
    "plain text. indent: all nestings (depth <= 3 quick, <= 4 thorough) of {IO.indent, IO.increment_indent, Output.indent, "
    "Also: indentation of one column; increment scopes on one Output serving both streams; exceptions must leave a scope; separators other than line feed inside an indented line; blank / tab / NBSP texts in the line writers; decoration after set_stream(); tags unknown to a one-style set. "
    "Output.increment_indent} x n in {0,2,5} x exit {normal, raise first, raise last, KeyboardInterrupt}. non-trivial = "
    "message with >= 1 tag / style with >= 2 properties / nesting depth >= 2; distinct by message string, style tuple x "
    "route, method cell, scope tuple."
)
BOUND = {
    "quick": "4000 messages; 12800 styles x 4 routes; full line-method table; 4 scopes x 3 sizes nested to depth 3 x 4 exits",
    "thorough": "480000 messages; 41472 styles x 4 routes; full line-method table; nesting depth 4",
}
ASSUMPTIONS = [
    "nested styles do not merge: the visible style of a character is the innermost enclosing style (the formatter's documented stack behaviour)",
    "inline styles use valid colour / option names only (anything else is rejected by the third-party pastel)",
    "raw writing methods are documented as 'without formatting' and are not expected to indent",
]

FG = {"black": 30, "red": 31, "green": 32, "yellow": 33, "blue": 34, "magenta": 35, "cyan": 36, "light_gray": 37, "default": 39,
      "dark_gray": 90, "light_red": 91, "light_green": 92, "light_yellow": 93, "light_blue": 94, "light_magenta": 95,
      "light_cyan": 96, "white": 97}
BG = dict((k, v + 10) for k, v in FG.items())
ATTRS = [("bold", 1, "bold"), ("dark", 2, "dark"), ("italic", 3, "italic"), ("underlined", 4, "underline"), ("blinking", 5, "blink"),
         ("inverse", 7, "reverse"), ("hidden", 8, "conceal")]
DEFAULT_TAGS = {"info": {32}, "comment": {36}, "question": {34}, "error": {31, 1}, "b": {1}, "u": {4}, "c1": {36}, "c2": {33}}
TAG_RE = re.compile(r"(?is)(?<!\\)<(([a-z][a-z0-9,_=;-]*)|/([a-z][a-z0-9,_=;-]*)?)>")
SGR_RE = re.compile("\x1b\\[([0-9;]*)m")
TEXTS = ["a", "word", "two words", " ", "a < b", "x>y", "<", ">", "1 <2", "<1>", "< b>", "é", "語", "line1\nline2", "\n", "tab\there", "", "a&b",
         "100%", "{}", "-", "=", "</ >", "<>", "a<", ">b"]
# texts with backslash-escaped '<' (the documented way to write a literal tag); shown with the backslash removed
ESC_TEXTS = ["a \\<b> c", "\\<", "if a \\< b: pass", "\\</info> x", "x \\<fg=red> y", "\\<error>", "\\<b>bold?\\</b>"]


def strip_sgr(s):
    return SGR_RE.sub("", s)


def sgr_runs(s):
    """[(char, frozenset(codes))] for every visible character."""
    out = []
    cur = set()
    i = 0
    while i < len(s):
        m = SGR_RE.match(s, i)
        if m:
            codes = [int(c) if c else 0 for c in m.group(1).split(";")] if m.group(1) != "" else [0]
            for c in codes:
                if c == 0:
                    cur = set()
                else:
                    cur.add(c)
            i = m.end()
            continue
        out.append((s[i], frozenset(cur)))
        i += 1
    return out


# ---- message ASTs ----------------------------------------------------------------
def gen_ast(ch, depth, extra_tags):
    """Returns list of nodes; node = ("t", text) | ("s", open, close, codes or None(unknown), children)"""
    nodes = []
    for _ in range(ch.randint(1, 3)):
        k = ch.randint(0, 9)
        if depth <= 0 or k < 4:
            nodes.append(("t", ch.choice(TEXTS) if not ch.flip(0.12) else ch.choice(ESC_TEXTS)))
        elif k < 7:
            tag = ch.choice(sorted(DEFAULT_TAGS) + sorted(extra_tags))
            codes = DEFAULT_TAGS.get(tag) or extra_tags[tag]
            open_ = ch.choice([tag, tag, tag.upper()]) if tag.isalpha() else tag
            close = ch.choice(["/" + tag, "/"])
            nodes.append(("s", "<%s>" % open_, "<%s>" % close, codes, gen_ast(ch, depth - 1, extra_tags)))
        elif k < 9:
            parts = []
            codes = set()
            if ch.flip(0.7):
                c = ch.choice(sorted(FG))
                parts.append("fg=" + c)
                codes.add(FG[c])
            if ch.flip(0.4):
                c = ch.choice(sorted(BG))
                parts.append("bg=" + c)
                codes.add(BG[c])
            if ch.flip(0.4) or not parts:
                opts = ch.subset([a[2] for a in ATTRS], 0.3) or ["bold"]
                parts.append("options=" + ",".join(opts))
                codes.update(a[1] for a in ATTRS if a[2] in opts)
            spec = ";".join(parts)
            close = ch.choice(["/", "/", "/" + spec])
            nodes.append(("s", "<%s>" % spec, "<%s>" % close, codes, gen_ast(ch, depth - 1, extra_tags)))
        else:
            tag = ch.choice(["foo", "strong", "x1", "tag-name"])
            nodes.append(("s", "<%s>" % tag, "</%s>" % tag, None, gen_ast(ch, depth - 1, extra_tags)))
    return nodes


def render(nodes, top, out, tags):
    """out: list of (char, expected codes); tags: intended tag strings in order. Returns markup string."""
    s = ""
    for n in nodes:
        if n[0] == "t":
            s += n[1]
            shown = n[1].replace("\\<", "<")
            if shown != n[1] and top:
                tags.append("ESCAPE-IN-STYLE")  # marker, removed by the caller
            out.extend((c, frozenset(top)) for c in shown)
        else:
            _, open_, close, codes, children = n
            if codes is None:  # unknown tag: literal text, style unchanged
                s += open_
                out.extend((c, frozenset(top)) for c in open_)
                tags.append(open_)
                s += render(children, top, out, tags)
                s += close
                out.extend((c, frozenset(top)) for c in close)
                tags.append(close)
            else:
                s += open_
                tags.append(open_)
                s += render(children, codes, out, tags)
                s += close
                tags.append(close)
    return s


class Lab(object):
    def __init__(self):
        from clikit.api.formatter import Style, StyleSet
        from clikit.api.io import IO, Input, Output
        from clikit.formatter import AnsiFormatter, DefaultStyleSet, PlainFormatter
        from clikit.io import BufferedIO
        from clikit.io.input_stream import StringInputStream
        from clikit.io.output_stream import BufferedOutputStream

        self.Style, self.StyleSet, self.DefaultStyleSet = Style, StyleSet, DefaultStyleSet
        self.AnsiFormatter, self.PlainFormatter = AnsiFormatter, PlainFormatter
        self.IO, self.Input, self.Output, self.BufferedIO = IO, Input, Output, BufferedIO
        self.StringInputStream = StringInputStream

        class RecStream(BufferedOutputStream):
            def __init__(self, ansi=False):
                BufferedOutputStream.__init__(self)
                self._ansi = ansi

            def supports_ansi(self):
                return self._ansi

        self.RecStream = RecStream

    def style(self, tag, fg, bg, attrs):
        s = self.Style(tag)
        if fg:
            s.fg(fg)
        if bg:
            s.bg(bg)
        for name, _, _ in ATTRS:
            if name in attrs:
                getattr(s, name)()
        return s

    def io(self, decorated, ansi_stream=False):
        so, se = self.RecStream(ansi_stream), self.RecStream(ansi_stream)
        f = (lambda: self.AnsiFormatter(forced=True)) if decorated == "forced" else ((lambda: self.AnsiFormatter()) if decorated == "ansi" else self.PlainFormatter)
        io = self.IO(self.Input(self.StringInputStream("")), self.Output(so, f()), self.Output(se, f()))
        return io, so, se


def codes_of(fg, bg, attrs):
    c = set()
    if fg:
        c.add(FG[fg])
    if bg:
        c.add(BG[bg])
    c.update(code for name, code, _ in ATTRS if name in attrs)
    return c


# ---- part: messages -------------------------------------------------------------
def run_messages(sh, lab, n):
    ch = RandomChooser(sh.rng)
    extra = {"s1": ("magenta", None, ("bold", "underlined")), "s2": (None, "yellow", ()), "s3": ("light_blue", "black", ("italic",))}
    extra_codes = dict((k, codes_of(*v)) for k, v in extra.items())
    styles = lab.DefaultStyleSet()
    for k, v in extra.items():
        styles.add(lab.style(k, *v))
    ansi = lab.AnsiFormatter(styles, True)
    plain = lab.PlainFormatter(styles)
    # formatters over a style set that defines only one tag of its own: whatever else the formatters know, they know alike
    small = lab.StyleSet([lab.style("s1", *extra["s1"])])
    kept = 0
    for i in range(n):
        ast = gen_ast(ch, 3, extra_codes)
        exp, tags = [], []
        m = render(ast, frozenset(), exp, tags)
        esc_in_style = "ESCAPE-IN-STYLE" in tags
        tags = [t for t in tags if t != "ESCAPE-IN-STYLE"]
        if [t.group(0) for t in TAG_RE.finditer(m)] != tags:
            sh.count("messages_discarded_accidental_tag")
            continue
        if "\\" in m:
            sh.count("messages_with_escaped_tag")
        kept += 1
        p = "".join(c for c, _ in exp)
        case = {"kind": "message", "markup": m, "plain": p}
        sh.case(m, bool(tags))
        try:
            a = ansi.format(m)
            results = {"ansi-stripped": strip_sgr(a), "plain.format": plain.format(m), "ansi.remove_format": ansi.remove_format(m),
                       "plain.remove_format": plain.remove_format(m)}
        except Exception as e:
            sh.violate("format-raises", case, "formatting balanced markup raised %r" % (e,))
            continue
        sh.count("messages")
        if i % 3 == 0:
            # the same agreement for formatters over a style set that defines only one tag of its own (messages over that
            # tag and the four names every formatter knows; new formatters per message)
            parts = []
            for _ in range(ch.randint(1, 4)):
                t = ch.choice(TEXTS[:12])
                if ch.flip(0.6):
                    # s2 / s3 / zz are not in this style set (other formatters of this process know s2 and s3): a tag the
                    # formatter does not know is text, and all renderings must treat it alike
                    tag = ch.choice(["info", "comment", "question", "error", "s1", "s1", "s2", "s3", "zz"])
                    inner = ch.choice(TEXTS[:12])
                    if ch.flip(0.3):
                        tag2 = ch.choice(["info", "error", "s1"])
                        inner = "%s<%s>%s</%s>" % (inner, tag2, ch.choice(TEXTS[:6]), tag2)
                    t = "<%s>%s</%s>" % (tag, inner, tag)
                parts.append(t)
            m2 = "".join(parts)
            if [t.group(0) for t in TAG_RE.finditer(m2)] == re.findall(r"</?(?:info|comment|question|error|s1|s2|s3|zz)>", m2):
                if re.search(r"<(?:s2|s3|zz)>", m2):
                    sh.count("one_style_set_messages_with_unknown_tag")
                a2, p2 = lab.AnsiFormatter(small, True), lab.PlainFormatter(small)
                try:
                    four = [strip_sgr(a2.format(m2)), p2.format(m2), a2.remove_format(m2), p2.remove_format(m2)]
                except Exception as e:
                    four = None
                    sh.violate("format-raises", {"kind": "message", "markup": m2, "style_set": "one custom style"}, "formatting with a one-style set raised %r" % (e,))
                sh.count("one_style_set_messages")
                if four and len(set(four)) != 1:
                    sh.violate("same-text", {"kind": "message", "markup": m2, "style_set": "one custom style"},
                               "with a style set of one custom style the renderings disagree: decorated-stripped %r, plain %r, remove_format %r / %r" % tuple(x[:60] for x in four))
        bad = [k for k, v in results.items() if v != p]
        if bad:
            key = None
            if esc_in_style and bad == ["ansi-stripped"] and results["ansi-stripped"].replace("\\<", "<") == p:
                key = "escaped-tag-inside-style-keeps-backslash"
            sh.violate("same-text", case, "%s = %r, intended text %r" % (bad[0], results[bad[0]], p), key)
            continue
        runs = sgr_runs(a)
        if "\x1b" in strip_sgr(a):
            sh.violate("sgr-shape", case, "non-SGR escape in %r" % a)
        elif [c for c, _ in runs] == [c for c, _ in exp] and runs != exp:
            k = next(j for j in range(len(exp)) if runs[j] != exp[j])
            sh.violate("sgr-per-character", case, "character %d %r shown with codes %s, the enclosing style means %s" % (
                k, exp[k][0], sorted(runs[k][1]), sorted(exp[k][1])))
        if "\x1b" in results["plain.format"] or "\x1b" in results["ansi.remove_format"]:
            sh.violate("plain-escape", case, "escape byte in undecorated rendering")
        # undecorated outputs: plain formatter, and ANSI formatter on a stream without ANSI support
        for deco, ansi_stream in (("plain", False), ("ansi", False), ("plain", True)):
            io, so, se = lab.io(deco, ansi_stream)
            for st in (io.output, io.error_output):
                st.formatter.add_style(lab.style("s1", *extra["s1"]))
                st.formatter.add_style(lab.style("s2", *extra["s2"]))
                st.formatter.add_style(lab.style("s3", *extra["s3"]))
            io.write(m)
            io.error_line(m)
            got_o, got_e = so.fetch(), se.fetch()
            if got_o != p or got_e != p + "\n":
                sh.violate("undecorated-output", case, "%s output (stream %s ANSI) wrote %r / %r, intended %r" % (deco, "claiming" if ansi_stream else "without", got_o, got_e, p))
            # components format pieces with io.format() / output.format() and write them afterwards: on an undecorated
            # output that may not bring escape bytes in either
            pre = [io.format(m), io.output.format(m), io.error_output.format(m)]
            if any("\x1b" in x for x in pre):
                sh.violate("undecorated-output", case, "%s output (stream %s ANSI): format() of the undecorated I/O returns escape bytes: %r" % (
                    deco, "claiming" if ansi_stream else "without", [x for x in pre if "\x1b" in x][0][:80]))
            if i % 4 == 0:
                # sections of an undecorated output: rewriting and clearing degrade to appended lines, never cursor codes
                so.clear()
                if i % 8 == 0 and deco == "plain" and not ansi_stream:
                    # ... also when the sections were created while the output was still decorated
                    io, so, se = lab.io("forced", False)
                    s1, s2 = io.output.section(), io.output.section()
                    for st in (io.output, s1, s2):
                        st.set_formatter(lab.PlainFormatter())
                    sh.count("sections_made_plain_after_creation")
                else:
                    s1, s2 = io.output.section(), io.output.section()
                for st in (s1, s2):
                    for k, v in extra.items():
                        st.formatter.add_style(lab.style(k, *v))
                s1.write_line(m)
                s2.write_line(m)
                s1.overwrite(m)
                s2.clear()
                s1.clear(1)
                s2.write(m)
                got = so.fetch()
                sh.count("undecorated_section_sequences")
                if "\x1b" in got:
                    sh.violate("undecorated-output", dict(case, sections=True), "%s output (stream %s ANSI): section operations emitted an escape byte: %r" % (
                        deco, "claiming" if ansi_stream else "without", got[:80]))
                elif got.replace("\n", "").replace(p.replace("\n", ""), "") != "":
                    sh.violate("undecorated-output", dict(case, sections=True), "%s output: sections wrote %r, which is not made of the intended text %r" % (deco, got[:120], p))
        if i % 5 == 0:
            # the stream is replaced after the I/O was built: decoration follows the formatter when it is forced, else the
            # claim of the stream now in place
            for deco, first_claim, second_claim, want_decorated in (("forced", True, False, True), ("forced", False, False, True), ("ansi", True, False, False),
                                                                      ("ansi", False, True, True), ("plain", False, True, False)):
                io, _, _ = lab.io(deco, first_claim)
                so2, se2 = lab.RecStream(second_claim), lab.RecStream(second_claim)
                io.output.set_stream(so2)
                io.error_output.set_stream(se2)
                for st in (io.output, io.error_output):
                    for k, v in extra.items():
                        st.formatter.add_style(lab.style(k, *v))
                io.write(m)
                io.error_line(m)
                got_o, got_e = so2.fetch(), se2.fetch()
                sh.count("stream_replaced_writes")
                if esc_in_style and want_decorated:
                    continue  # the known third-party quirk concerns the decorated rendering of these messages
                if strip_sgr(got_o) != p or strip_sgr(got_e) != p + "\n":
                    sh.violate("same-text", dict(case, stream_replaced=True), "%s formatter after set_stream: wrote %r / %r, intended text %r" % (deco, got_o[:60], got_e[:60], p))
                elif want_decorated and a != p and ("\x1b" not in got_o or "\x1b" not in got_e):
                    sh.violate("sgr-codes", dict(case, stream_replaced=True), "%s formatter, stream replaced by one %s ANSI support: the styled message arrived without codes: %r" % (
                        deco, "with" if second_claim else "without", got_o[:60]))
                elif not want_decorated and ("\x1b" in got_o or "\x1b" in got_e):
                    sh.violate("undecorated-output", dict(case, stream_replaced=True), "%s formatter, stream replaced by one %s ANSI support: escape bytes written: %r" % (
                        deco, "with" if second_claim else "without", got_o[:60]))
        if i < 2:
            sh.sample(case)
    if kept < n // 3:
        sh.inconclusive_because("most generated messages were discarded (%d of %d kept)" % (kept, n))


# ---- part: styles ---------------------------------------------------------------
def check_style(sh, lab, fg, bg, attrs):
    want = codes_of(fg, bg, attrs)
    nt = len(want) >= 2
    spec = {"kind": "style", "fg": fg, "bg": bg, "attrs": list(attrs)}

    def judge(route, text, leaf_expect):
        """leaf_expect: list of (substring, expected codes)"""
        sh.case((fg, bg, attrs, route), nt)
        sh.count("style_renderings")
        runs = sgr_runs(text)
        plain = "".join(c for c, _ in runs)
        pos = 0
        for sub, codes in leaf_expect:
            k = plain.find(sub, pos)
            if k < 0:
                sh.violate("style-text", dict(spec, route=route), "text %r missing from %r" % (sub, text))
                return
            got = set(runs[k][1])
            for j in range(k, k + len(sub)):
                if set(runs[j][1]) != got:
                    got = None
                    break
            if got != set(codes):
                sh.violate("sgr-codes", dict(spec, route=route), "%s: %r rendered as %r: codes %s, the style denotes %s" % (
                    route, sub, text, sorted(got) if got is not None else "mixed", sorted(codes)))
                return
            pos = k + len(sub)
        if want and not text.endswith("\x1b[0m") and leaf_expect[-1][1]:
            sh.violate("sgr-reset", dict(spec, route=route), "%s: styled run does not end with reset: %r" % (route, text))
        if not want and "\x1b" in text and route in ("styleset", "add_style", "per-call-plain"):
            sh.violate("sgr-codes", dict(spec, route=route), "%s: empty style produced escape codes %r" % (route, text))

    try:
        st = lab.style("zz", fg, bg, attrs)
        f1 = lab.AnsiFormatter(lab.StyleSet([st]), True)
        judge("styleset", f1.format("pre<zz>XY</zz>post"), [("pre", set()), ("XY", want), ("post", set())])
        f2 = lab.AnsiFormatter(forced=True)
        f2.add_style(lab.style("zz", fg, bg, attrs))
        judge("add_style", f2.format("<zz>XY</>"), [("XY", want)])
        f3 = lab.AnsiFormatter(forced=True)
        judge("per-call-plain", f3.format("XY", style=lab.style(None, fg, bg, attrs)), [("XY", want)])
        for txt in ("a < b", "<-", "1 << 2 >", "<"):
            judge("per-call-plain", f3.format(txt, style=lab.style(None, fg, bg, attrs)), [(txt, want)])
        judge("per-call-tagged", f3.format("pre<u>MID</u>post", style=lab.style(None, fg, bg, attrs)), [("pre", want), ("MID", {4}), ("post", want)])
        # a per-call style must not leak into the next call
        judge("after-per-call", f3.format("pre<b>B</b>"), [("pre", set()), ("B", {1})])
        # tags are matched without regard to case: a style registered as "Warn" answers to <Warn>, <warn> and <WARN>
        if fg == bg or not attrs:
            f5 = lab.AnsiFormatter(lab.StyleSet([lab.style("Warn", fg, bg, attrs)]), True)
            judge("mixed-case-tag", f5.format("<Warn>XY</Warn>"), [("XY", want)])
            f6 = lab.AnsiFormatter(forced=True)
            f6.add_style(lab.style("Warn", fg, bg, attrs))
            judge("mixed-case-tag", f6.format("<warn>XY</warn>"), [("XY", want)])
            p5 = lab.PlainFormatter(lab.StyleSet([lab.style("Warn", fg, bg, attrs)]))
            sh.count("style_renderings")
            if p5.format("<Warn>XY</Warn>") != "XY":
                sh.violate("undecorated-output", dict(spec, route="mixed-case-tag"), "plain formatter shows the markup of the registered style 'Warn': %r" % p5.format("<Warn>XY</Warn>"))
        # a subclass that answers the attribute hooks itself (the converter must ask the hooks), for the first attribute set
        if attrs and fg == bg:
            base = lab.Style
            names = set(attrs)

            class HookStyle(base):
                def is_bold(self):
                    return "bold" in names

                def is_dark(self):
                    return "dark" in names

                def is_italic(self):
                    return "italic" in names

                def is_underlined(self):
                    return "underlined" in names

                def is_blinking(self):
                    return "blinking" in names

                def is_inverse(self):
                    return "inverse" in names

                def is_hidden(self):
                    return "hidden" in names

            hs = HookStyle("hk")
            if fg:
                hs.fg(fg)
            if bg:
                hs.bg(bg)
            f4 = lab.AnsiFormatter(forced=True)
            f4.add_style(hs)
            judge("subclass-hooks", f4.format("<hk>XY</hk>"), [("XY", want)])
        # same through an output's formatting facade
        io, so, se = lab.io("forced")
        io.output.formatter.add_style(lab.style("zz", fg, bg, attrs))
        io.write("<zz>XY</zz>")
        judge("output-write", so.fetch(), [("XY", want)])
    except Exception as e:
        sh.violate("style-raises", spec, "raised %r" % (e,))


def run_styles(sh, lab, fgs, bgs):
    for fg in fgs:
        for bg in bgs:
            for r in range(1 << len(ATTRS)):
                attrs = tuple(a[0] for i, a in enumerate(ATTRS) if r >> i & 1)
                check_style(sh, lab, fg, bg, attrs)
    sh.sample({"kind": "style", "fg": "red", "bg": "light_gray", "attrs": ["bold", "dark"]})


# ---- part: line methods -----------------------------------------------------------
def line_targets(lab, deco):
    """(label, object, stream-getter) for IO, BufferedIO, Output, SectionOutput, section-IO."""
    out = []
    io, so, se = lab.io(deco)
    out.append(("IO", io, lambda so=so, se=se: so.fetch() + se.fetch()))
    io, so, se = lab.io(deco)
    out.append(("Output", io.output, lambda so=so, se=se: so.fetch() + se.fetch()))
    io, so, se = lab.io(deco)
    out.append(("ErrorOutput", io.error_output, lambda so=so, se=se: so.fetch() + se.fetch()))
    io, so, se = lab.io(deco)
    out.append(("SectionOutput", io.output.section(), lambda so=so, se=se: so.fetch() + se.fetch()))
    io, so, se = lab.io(deco)
    out.append(("SectionIO", io.section(), lambda so=so, se=se: so.fetch() + se.fetch()))
    bio = lab.BufferedIO("", lab.AnsiFormatter(forced=True) if deco == "forced" else lab.PlainFormatter())
    out.append(("BufferedIO", bio, lambda bio=bio: bio.fetch_output() + bio.fetch_error()))
    bio = lab.BufferedIO("", lab.AnsiFormatter(forced=True) if deco == "forced" else lab.PlainFormatter())
    sec = bio.section()
    out.append(("BufferedIO.section", sec, lambda bio=bio: bio.fetch_output() + bio.fetch_error()))
    return out


def run_lines(sh, lab):
    texts = [("plain", "hello world", "hello world", "hello world"), ("tagged", "<b>bold</b> x", "\x1b[1mbold\x1b[0m x", "bold x"),
             ("multi", "l1\nl2", "l1\nl2", "l1\nl2"), ("unicode", "é語", "é語", "é語"),
             # blanks are text: whitespace-only lines, trailing blanks and tabs, other separators inside the line
             ("blanks", "   ", "   ", "   "), ("trailing-blanks", "name:  ", "name:  ", "name:  "), ("tabs", "col1\tcol2\t", "col1\tcol2\t", "col1\tcol2\t"),
             ("tab-only", "\t", "\t", "\t"), ("nbsp", "a\xa0", "a\xa0", "a\xa0"), ("cr-inside", "10%\r100% done", "10%\r100% done", "10%\r100% done"),
             ("form-feed", "page\x0cnext ", "page\x0cnext ", "page\x0cnext "), ("empty", "", "", "")]
    for n in (8191, 8192, 8193, 9000, 12287, 12288, 20000, 70000):
        # long texts: nothing is cut or re-chunked, whatever the size
        texts.append(("long-%d" % n, "x" * n, "x" * n, "x" * n))
        texts.append(("long-tagged-%d" % n, "<b>" + "y" * n + "</b>z", "\x1b[1m" + "y" * n + "\x1b[0mz", "y" * n + "z"))
    found = set()
    for deco in ("forced", "plain"):
        labels = [t[0] for t in line_targets(lab, deco)]
        for ti, label in enumerate(labels):
            obj0 = line_targets(lab, deco)[ti][1]
            names = [n for n in dir(obj0) if not n.startswith("_") and (n.endswith("_line") or n.endswith("_line_raw")) and callable(getattr(obj0, n))]
            for name in names:
                try:
                    params = list(inspect.signature(getattr(obj0, name)).parameters)
                except (TypeError, ValueError):
                    continue
                if not params or params[0] not in ("string", "message", "text", "line"):
                    continue
                if name.startswith("read"):
                    continue
                found.add((label, name))
                for tname, text, ansi_text, plain_text in texts:
                    _, obj, fetch = line_targets(lab, deco)[ti]
                    case = {"kind": "line", "target": label, "method": name, "decoration": deco, "text": text}
                    sh.case((label, name, deco, tname), True)
                    try:
                        getattr(obj, name)(text)
                    except Exception as e:
                        sh.violate("line-raises", case, "raised %r" % (e,))
                        continue
                    got = fetch()
                    raw = name.endswith("_raw")
                    want = (text if raw else (ansi_text if deco == "forced" else plain_text)) + "\n"
                    sh.count("line_calls")
                    if got != want:
                        sh.violate("line-newline", case, "%s.%s(%r) [%s] emitted %r, expected %r" % (label, name, text, deco, got, want))
    sh.note("line_methods", sorted("%s.%s" % f for f in found))
    sh.count("line_methods_found", len(found))
    sh.sample({"kind": "line", "target": "IO", "method": "error_line_raw", "decoration": "plain", "text": "<b>bold</b> x"})


# ---- part: indentation ---------------------------------------------------------------
SCOPES = ["io.indent", "io.increment_indent", "out.indent", "out.increment_indent"]
SIZES = [0, 1, 2, 5]
EXITS = ["normal", "raise-first", "raise-last", "interrupt"]


class Boom(Exception):
    pass


def probe(sh, io, so, se, ind_out, ind_err, case, where):
    so.clear()
    se.clear()
    io.write_line("p1\n\np3")
    io.error_line("e1")
    io.output.write("w1\n")
    # a line is what ends in a line feed: other separators (carriage return, form feed, U+2028, ...) are characters of the line
    io.error_line("10%\r100%\x0cdone\u2028x\x85y")
    want_o = "%sp1\n\n%sp3\n%sw1\n" % (" " * ind_out, " " * ind_out, " " * ind_out)
    want_e = "%se1\n%s10%%\r100%%\x0cdone\u2028x\x85y\n" % (" " * ind_err, " " * ind_err)
    sh.count("indent_probes")
    if so.fetch() != want_o or se.fetch() != want_e:
        sh.violate("indentation", case, "%s: wrote %r / %r, expected %r / %r" % (where, so.fetch(), se.fetch(), want_o, want_e))
        return False
    return True


def run_scope(sh, lab, deco, scopes, exit_kind):
    io, so, se = lab.io(deco)
    case = {"kind": "indent", "decoration": deco, "scopes": [list(s) for s in scopes], "exit": exit_kind}
    sh.case((deco, tuple(scopes), exit_kind), len(scopes) >= 2)
    if not probe(sh, io, so, se, 0, 0, case, "before any scope"):
        return

    def enter(k, ind_out, ind_err):
        if k == len(scopes):
            if exit_kind == "raise-first":
                raise Boom()
            ok = probe(sh, io, so, se, ind_out, ind_err, case, "inside %d scope(s)" % k)
            if exit_kind == "raise-last" and ok:
                raise Boom()
            if exit_kind == "interrupt" and ok:
                raise KeyboardInterrupt()
            return ok
        kind, n = scopes[k]
        if kind == "io.indent":
            cm, no, ne = io.indent(n), n, n
        elif kind == "io.increment_indent":
            cm, no, ne = io.increment_indent(n), ind_out + n, ind_err + n
        elif kind == "out.indent":
            cm, no, ne = io.output.indent(n), n, ind_err
        else:
            cm, no, ne = io.output.increment_indent(n), ind_out + n, ind_err
        raised = None
        ok = True
        inner_raised = []
        try:
            with cm:
                if k < len(scopes) - 1 or exit_kind in ("normal",):
                    pass
                try:
                    ok = enter(k + 1, no, ne)
                except (Boom, KeyboardInterrupt):
                    inner_raised.append(True)
                    raise
        except (Boom, KeyboardInterrupt) as e:
            raised = e
        if inner_raised and raised is None:
            # a scope is left by an exception: the exception goes on, the scope only restores the indentation
            sh.violate("exception-swallowed", case, "the exception that left scope %d (%s) did not come out of the with block" % (k, kind))
            return False
        # after leaving scope k the previous indentation holds again
        if ok and not probe(sh, io, so, se, ind_out, ind_err, case, "after leaving scope %d (%s, exit %s)" % (k, kind, exit_kind)):
            ok = False
        if raised is not None:
            raise raised
        return ok

    try:
        enter(0, 0, 0)
    except (Boom, KeyboardInterrupt):
        pass
    except Exception as e:
        sh.violate("indent-raises", case, "raised %r" % (e,))


def run_shared_output_scopes(sh, lab):
    """One Output object serving as standard AND error output of an I/O object (stderr merged into stdout): set-style
    and increment scopes; an increment of n raises the indentation in force by n, not by n per role the object plays."""
    alphabet = [(k, n) for k in ("io.indent", "out.indent", "io.increment", "out.increment") for n in SIZES]
    for d in (1, 2):
        for scopes in itertools.product(alphabet, repeat=d):
            for ex in ("normal", "raise-last", "interrupt"):
                st = lab.RecStream(False)
                out = lab.Output(st, lab.PlainFormatter())
                io = lab.IO(lab.Input(lab.StringInputStream("")), out, out)
                case = {"kind": "indent-shared-output", "scopes": [list(x) for x in scopes], "exit": ex}
                sh.case(("shared", scopes, ex), True)

                def probe_shared(n, where):
                    st.clear()
                    io.write_line("p1")
                    io.error_line("e1")
                    sh.count("indent_probes")
                    want = "%sp1\n%se1\n" % (" " * n, " " * n)
                    if st.fetch() != want:
                        sh.violate("indentation", case, "%s: wrote %r, expected %r" % (where, st.fetch(), want))
                        return False
                    return True

                levels = [0]
                for kind_, n_ in scopes:
                    levels.append(levels[-1] + n_ if kind_.endswith("increment") else n_)

                def enter(k):
                    if k == len(scopes):
                        probe_shared(levels[-1], "inside")
                        if ex == "raise-last":
                            raise Boom()
                        if ex == "interrupt":
                            raise KeyboardInterrupt()
                        return
                    kind, n = scopes[k]
                    before = levels[k]
                    try:
                        with {"io.indent": io.indent, "out.indent": out.indent, "io.increment": io.increment_indent, "out.increment": out.increment_indent}[kind](n):
                            enter(k + 1)
                    finally:
                        probe_shared(before, "after leaving scope %d (%s, exit %s)" % (k, kind, ex))

                try:
                    enter(0)
                except (Boom, KeyboardInterrupt):
                    pass
                except Exception as e:
                    sh.violate("indent-raises", case, "raised %r" % (e,))


def run_application_styles(sh, lab):
    """Styles added to the application configuration reach both outputs of the I/O built for a run."""
    from clikit.args import ArgvArgs
    from clikit.config.default_application_config import DefaultApplicationConfig
    from clikit.console_application import ConsoleApplication
    from clikit.handler.callback_handler import CallbackHandler
    from clikit.io.input_stream import StringInputStream

    def handler(args, io):
        io.write_line("<warn>W</warn> and <info>I</info>")
        io.error_line("<warn>W</warn> and <info>I</info>")
        return 0

    for claims in ((False, False), (True, True), (True, False), (False, True)):
        for si, switch in enumerate(([], ["--ansi"], ["--no-ansi"])):
            batch = (si + int(claims[0])) % 2 == 1
            cfg = DefaultApplicationConfig("app", "1.0")
            cfg.set_terminate_after_run(False)
            # one style at a time, or a batch
            if batch:
                cfg.add_styles([lab.style("warn", "yellow", None, ("bold",)), lab.style("note", "cyan", None, ())])
            else:
                cfg.add_style(lab.style("warn", "yellow", None, ("bold",)))
            cfg.create_command("run").set_handler(CallbackHandler(handler))
            so, se = lab.RecStream(claims[0]), lab.RecStream(claims[1])
            case = {"kind": "application-styles", "streams_claim_ansi": list(claims), "switch": switch}
            sh.case(("app-styles", claims, tuple(switch)), True)
            try:
                status = ConsoleApplication(cfg).run(ArgvArgs(["prog", "run"] + switch), StringInputStream(""), so, se)
            except Exception as e:
                sh.violate("format-raises", case, "run raised %r" % (e,))
                continue
            sh.count("application_style_runs")
            for which, text, claim in (("standard", so.fetch(), claims[0]), ("error", se.fetch(), claims[1])):
                decorated = switch == ["--ansi"] or (claim and switch != ["--no-ansi"])
                if strip_sgr(text) != "W and I\n":
                    sh.violate("undecorated-output" if not decorated else "same-text", case, "status %r, %s stream shows %r, expected the text 'W and I'" % (status, which, text))
                    continue
                if not decorated and "\x1b" in text:
                    sh.violate("undecorated-output", case, "%s stream is undecorated but received %r" % (which, text))
                if decorated:
                    runs = sgr_runs(text)
                    if set(runs[0][1]) != {33, 1}:
                        sh.violate("sgr-codes", case, "%s stream: the application's style 'warn' (yellow, bold) rendered with codes %s" % (which, sorted(runs[0][1])))


def run_indent(sh, lab, depth, part):
    alphabet = [(s, n) for s in SCOPES for n in SIZES]
    k = 0
    for d in range(1, depth + 1):
        for scopes in itertools.product(alphabet, repeat=d):
            k += 1
            if k % part[1] != part[0]:
                continue
            for ex in EXITS:
                for deco in (("forced", "plain") if d <= 2 else ("plain",)):
                    run_scope(sh, lab, deco, scopes, ex)
    sh.sample({"kind": "indent", "decoration": "plain", "scopes": [["io.indent", 2], ["out.increment_indent", 5]], "exit": "raise-last"})


def plan(tier, seed):
    fgs = [None] + sorted(FG)
    if tier == "quick":
        q = [None, "red", "green", "default", "white", "black", "light_gray", "dark_gray", "light_cyan", "magenta"]
        specs = [{"part": "messages", "n": 2000} for _ in range(2)]
        specs += [{"part": "styles", "fgs": q[i::2], "bgs": q} for i in range(2)]
        specs += [{"part": "lines"}] + [{"part": "indent", "depth": 3, "slice": [i, 2]} for i in range(2)]
        return specs
    specs = [{"part": "messages", "n": 60000} for _ in range(8)]
    specs += [{"part": "styles", "fgs": [fg], "bgs": fgs} for fg in fgs]
    specs += [{"part": "lines"}] + [{"part": "indent", "depth": 4, "slice": [i, 6]} for i in range(6)]
    return specs


def run(sh, spec):
    repo.activate()
    lab = Lab()
    part = spec["part"]
    if part == "messages":
        run_messages(sh, lab, spec["n"])
    elif part == "styles":
        run_styles(sh, lab, spec["fgs"], spec["bgs"])
    elif part == "lines":
        run_lines(sh, lab)
        run_application_styles(sh, lab)
    else:
        run_indent(sh, lab, spec["depth"], spec["slice"])
        if spec["slice"][0] == 0:
            run_shared_output_scopes(sh, lab)


def finalize(tier, merged):
    c = merged["counters"]
    inc = []
    for k in ("messages", "style_renderings", "line_calls", "indent_probes"):
        if not c.get(k):
            inc.append("counter %s is zero" % k)
    if c.get("line_methods_found", 0) < 12:
        inc.append("reflection found only %d line-writing methods" % c.get("line_methods_found", 0))
    lm = []
    for n in merged["notes"]:
        lm = n.get("line_methods", lm)
    return {"inconclusive": inc, "coverage": {"line_methods": lm}}


def replay(sh, case):
    repo.activate()
    lab = Lab()
    k = case["kind"]
    if k == "style":
        check_style(sh, lab, case["fg"], case["bg"], tuple(case["attrs"]))
    elif k == "line":
        run_lines(sh, lab)
    elif k == "indent":
        run_scope(sh, lab, case["decoration"], [tuple(s) for s in case["scopes"]], case["exit"])
    else:
        sh.inconclusive_because("message replay: rerun with the same VERIF_SEED (markup %r)" % case.get("markup"))
