"""C05 - parsing is a pure function of the command line, the format and the mode.

History monitor: a sequence of parse requests is issued to ONE parser instance;
every outcome is compared with the outcome the same request has in a pristine
world (new parser, newly built format, new raw args), and deep snapshots of the
argv lists, the raw args and the formats are compared before / after each call.
"""
import copy
import itertools

from rv import repo
from rv.checks import c02
from rv.gen import argline
from rv.gen.choose import RandomChooser

PROPERTY = "C05"
LEVEL = "exploration"
EXHAUSTIVE = {"quick": True, "thorough": True}
RULE = (
    "a catalogue of 40 parse requests (format x token line x leniency; successful, failing with each documented error, "
    "with and without options) is drawn from 15 formats x 22 lines; every ordered pair (quick) / triple (thorough) of "
    "requests is issued to one parser instance, plus seeded random histories of length 4-6 over the whole 660-request "
    "pool and over C01-generated lines, plus histories through Config.set_args_parser / Command.parse shared by two "
    "commands. Each outcome is compared with a pristine-world reference; argv lists, RawArgs and format listings are "
    "Also: a consumer appends to every default list a result hands out (the format listing must not change). "
    "snapshotted around every call; earlier results are re-read at the end of the history. non-trivial = history with "
    "two requests that differ in the set of options given; distinct by tuple of request ids."
)
BOUND = {
    "quick": "all 1600 ordered pairs of a 40-request catalogue + 3000 random histories of length 4-6 + 300 shared-parser application histories",
    "thorough": "all 64000 ordered triples of a 40-request catalogue + 120000 random histories of length 4-6 + 6000 shared-parser application histories",
}
ASSUMPTIONS = ["two outcomes are equal when both return the same four maps (with/without defaults) or both raise the same exception type with the same message"]

LINES = [
    [], ["--alpha"], ["-a"], ["--alpha=v"], ["--alpha", "w"], ["w"], ["w", "x y"], ["-ab"], ["--beta=7", "w"], ["--zeta"],
    ["-b", "5"], ["--alpha=5", "--beta=7"], ["server", "w"], ["srv", "--alpha=true", "w"], ["w", "--", "--alpha"],
    ["-a5", "w", "5"], ["--alpha=1", "--alpha=2", "w"], ["-a", "1", "--beta"], ["w", "w", "w", "w"], ["--beta"],
    ["server", "add", "--alpha=3", "w", "w"], ["5", "true", "--alpha=x"],
]


def listing(fmt):
    try:
        return _listing(fmt)
    except Exception as e:  # a format that can no longer be listed has been altered
        return ("unlistable", type(e).__name__, str(e)[:120])


def _listing(fmt):
    out = []
    for ib in (True, False):
        out.append(tuple((c.string, tuple(c.aliases)) for c in fmt.get_command_names(ib)))
        out.append(tuple((k, o.long_name, o.short_name, o.flags, repr(o.default), o.description) for k, o in fmt.get_options(ib).items()))
        out.append(tuple((k, a.name, a.flags, repr(a.default), a.description) for k, a in fmt.get_arguments(ib).items()))
        out.append((fmt.has_arguments(ib), fmt.has_multi_valued_argument(ib), fmt.has_optional_argument(ib), fmt.has_options(ib)))
    return tuple(out)


def read(r):
    return copy.deepcopy((r.arguments(False), r.options(False), r.arguments(True), r.options(True)))


def outcome(parser, raw, fmt, lenient):
    try:
        r = parser.parse(raw, fmt, lenient)
    except Exception as e:
        return ("exc", type(e).__name__, str(e)), None
    seen = ("ok",) + read(r)
    # what a handler may do with the values it is given: lists are its own (a default handed out by reference would let
    # it change the format, and with it every later parse)
    given_a, given_o = r.arguments(False), r.options(False)
    for k, v in [(k, v) for k, v in r.arguments(True).items() if k not in given_a] + [(k, v) for k, v in r.options(True).items() if k not in given_o]:
        if isinstance(v, list):
            v.append("APPENDED-BY-THE-CONSUMER")  # only to values the line did not give: the defaults
    return seen, r


def eq(a, b):
    if a[0] != b[0]:
        return False
    if a[0] == "exc":
        return a == b
    return all(argline.same(x, y) for x, y in zip(a[1:], b[1:]))


class World(object):
    """Objects shared along one history."""

    def __init__(self, api):
        self.api = api
        self.formats = {}
        self.raws = {}
        self.snap = {}
        self.wrap_changed = []
        World.made = getattr(World, "made", 0) + 1
        self.serial = World.made  # histories start at different places of the script-name list

    def fmt(self, key, desc):
        if key not in self.formats:
            self.formats[key] = self.api.build(desc)
            self.snap[("f", key)] = listing(self.formats[key])
        return self.formats[key]

    SCRIPT_NAMES = ["prog", " console", "\tmy console", "", "a b", "prog\n", "-x", "--", "pröǵ", "/opt/app/pkg/__main__.py", "pkg/__main__.py", "./bin/console.py", "C:\\tools\\app.exe", "python -m app"]

    def raw(self, key, tokens):
        if key not in self.raws:
            script = self.SCRIPT_NAMES[(len(self.raws) + self.serial) % len(self.SCRIPT_NAMES)]
            argv = [script] + list(tokens)
            before = list(argv)
            if len(self.raws) % 4 == 3:
                # the form without an argument wraps the interpreter's own argv list
                import sys

                saved, sys.argv = sys.argv, argv
                try:
                    r = self.api.ArgvArgs()
                finally:
                    sys.argv = saved
            else:
                r = self.api.ArgvArgs(argv)
            self.raws[key] = (r, argv)
            if argv != before:
                self.wrap_changed.append("wrapping %r as ArgvArgs changed the list to %r" % (before, argv))
            self.snap[("r", key)] = (before, list(r.tokens), list(r.option_tokens), r.script_name)
        return self.raws[key][0]

    def changed(self):
        out = list(self.wrap_changed)
        for key, f in self.formats.items():
            if listing(f) != self.snap[("f", key)]:
                out.append("format %r listing changed" % (key,))
        for key, (r, argv) in self.raws.items():
            now = (list(argv), list(r.tokens), list(r.option_tokens), r.script_name)
            if now != self.snap[("r", key)]:
                out.append("raw args / argv of %r changed: %r -> %r" % (key, self.snap[("r", key)], now))
        return out


def reference(api, desc, tokens, lenient):
    o, _ = outcome(api.DefaultArgsParser(), api.ArgvArgs(["prog"] + list(tokens)), api.build(desc), lenient)
    return o


def run_history(sh, api, reqs, refs, record, parser_factory=None):
    """reqs: list of (key, desc, tokens, lenient)."""
    w = World(api)
    parser = (parser_factory or api.DefaultArgsParser)()
    results = []
    optsets = set()
    for n, (key, desc, tokens, lenient) in enumerate(reqs):
        fmt = w.fmt(key[0] if isinstance(key, tuple) else key, desc)
        raw = w.raw(key, tokens)
        got, r = outcome(parser, raw, fmt, lenient)
        sh.count("parses_in_history")
        want = refs(key, desc, tokens, lenient)
        if want[0] == "ok":
            optsets.add(tuple(sorted(want[2])))
        if not eq(got, want):
            sh.violate("depends-on-history", record, "request #%d %r lenient=%s on the reused parser gave %r, a fresh parser gives %r" % (n, tokens, lenient, got, want))
            return len(optsets) >= 2
        ch = w.changed()
        if ch:
            sh.violate("input-mutated", record, "after request #%d %r: %s" % (n, tokens, "; ".join(ch[:3])))
            return len(optsets) >= 2
        results.append((r, got))
    for n, (r, got) in enumerate(results):
        if r is not None:
            now = ("ok",) + read(r)
            if not eq(now, got):
                sh.violate("earlier-result-altered", record, "result of request #%d read again after the history: %r, was %r" % (n, now, got))
                break
    return len(optsets) >= 2


def pool():
    out = []
    for fid, desc in enumerate(c02.FORMATS):
        for lid, line in enumerate(LINES):
            for lenient in (False, True):
                out.append(((fid, lid, lenient), desc, line, lenient))
    return out


def catalogue(api, rng, size=40):
    """Stratified by reference outcome so that successes and every error kind are present."""
    p = pool()
    strata = {}
    for req in p:
        o = reference(api, req[1], req[2], req[3])
        kind = o[1] if o[0] == "exc" else ("ok+opts" if o[2] else "ok")
        strata.setdefault(kind, []).append(req)
    cat = []
    kinds = sorted(strata)
    i = 0
    while len(cat) < size:
        k = kinds[i % len(kinds)]
        i += 1
        if strata[k]:
            cat.append(strata[k].pop(rng.randrange(len(strata[k]))))
    return cat, {k: len(v) for k, v in strata.items()}


def plan(tier, seed):
    if tier == "quick":
        return [{"part": "tuples", "k": 2, "slice": [i, 2]} for i in range(2)] + [{"part": "random", "n": 3000}, {"part": "app", "n": 300}]
    return [{"part": "tuples", "k": 3, "slice": [i, 10]} for i in range(10)] + [{"part": "random", "n": 30000} for _ in range(4)] + [{"part": "app", "n": 3000} for _ in range(2)]


def make_refs(api):
    cache = {}

    def refs(key, desc, tokens, lenient):
        k = (repr(key), lenient)
        if k not in cache:
            cache[k] = reference(api, desc, tokens, lenient)
        return cache[k]

    return refs


def run(sh, spec):
    import random

    repo.activate()
    api = argline.Api()
    refs = make_refs(api)
    if spec["part"] == "tuples":
        cat, strata = catalogue(api, random.Random(sh.seed * 31 + 7))
        for k in sorted(strata):
            sh.tag("catalogue_outcomes", k)
        i, n = spec["slice"]
        for j, idx in enumerate(itertools.product(range(len(cat)), repeat=spec["k"])):
            if j % n != i:
                continue
            reqs = [cat[x] for x in idx]
            record = {"kind": "history", "requests": [[list(r[0]), r[2], r[3]] for r in reqs]}
            nt = run_history(sh, api, reqs, refs, record)
            sh.case(tuple(r[0] for r in reqs), nt)
            if j < 2:
                sh.sample(record)
    elif spec["part"] == "random":
        p = pool()
        ch = RandomChooser(sh.rng)
        for j in range(spec["n"]):
            reqs = []
            if j % 3 == 2:
                # C01-generated lines on generated formats, valid and single-fault
                fs = [argline.gen_format(ch) for _ in range(2)]
                for q in range(sh.rng.randint(4, 6)):
                    fi = sh.rng.randrange(2)
                    case = None
                    while case is None:
                        case = argline.gen_case(fs[fi], ch)
                    toks = case["tokens"]
                    if sh.rng.random() < 0.3:
                        m = c02.mutate(fs[fi], case, ch, sh.rng.choice(c02.OPS))
                        if m:
                            toks = m[0]
                    reqs.append((("g%d" % fi, q), fs[fi], toks, sh.rng.random() < 0.4))
                record = {"kind": "generated-history", "formats": fs, "requests": [[r[0][0], r[2], r[3]] for r in reqs]}
            else:
                reqs = [p[sh.rng.randrange(len(p))] for _ in range(sh.rng.randint(4, 6))]
                record = {"kind": "history", "requests": [[list(r[0]), r[2], r[3]] for r in reqs]}
            nt = run_history(sh, api, reqs, refs if j % 3 != 2 else (lambda key, d, t, l: reference(api, d, t, l)), record)
            sh.case(tuple(repr(r[0]) + repr(r[2]) for r in reqs), nt)
    else:
        run_app(sh, api, spec["n"])


def run_app(sh, api, n):
    """The public sharing path: one parser installed with set_args_parser and
    used by several commands through Command.parse."""
    from clikit.api.args.format import Argument, Option
    from clikit.api.config.application_config import ApplicationConfig
    from clikit.console_application import ConsoleApplication

    lines = [["--alpha=1", "w"], ["w"], ["-b"], ["--gamma", "x", "w"], ["--zeta"], [], ["w", "--", "-b"], ["--alpha=2", "--alpha=3"]]
    for j in range(n):
        def build():
            cfg = ApplicationConfig("app", "1.0")
            cfg.set_args_parser(api.DefaultArgsParser())
            for name in ("one", "two"):
                c = cfg.create_command(name)
                c.add_argument("arg", Argument.OPTIONAL, "an argument")
                c.add_option("alpha", "a", Option.MULTI_VALUED | Option.INTEGER, "alpha")
                c.add_option("beta", "b", Option.NO_VALUE, "beta")
                c.add_option("gamma", None, Option.OPTIONAL_VALUE, "gamma", "dflt")
                c.set_handler(lambda *a: 0)
            return ConsoleApplication(cfg)

        app = build()
        hist = [(sh.rng.choice(("one", "two")), sh.rng.choice(lines), sh.rng.random() < 0.3) for _ in range(sh.rng.randint(2, 5))]
        record = {"kind": "app-history", "requests": [[c, l, le] for c, l, le in hist]}
        optsets = set()
        for k, (cname, line, lenient) in enumerate(hist):
            def one(a):
                try:
                    r = a.get_command(cname).parse(api.ArgvArgs(["prog"] + line), lenient)
                    return ("ok",) + read(r)
                except Exception as e:
                    return ("exc", type(e).__name__, str(e))
            got = one(app)
            want = one(build())
            sh.count("parses_in_history")
            if want[0] == "ok":
                optsets.add(tuple(sorted(want[2])))
            if not eq(got, want):
                sh.violate("depends-on-history", record, "shared configured parser: request #%d %s %r gave %r, fresh application gives %r" % (k, cname, line, got, want))
                break
        sh.case(tuple((c, tuple(l), le) for c, l, le in hist), len(optsets) >= 2)
        if j < 1:
            sh.sample(record)


def finalize(tier, merged):
    c = merged["counters"]
    inc = []
    if c.get("parses_in_history", 0) < 3000:
        inc.append("fewer than 3000 parses observed inside histories")
    return {"inconclusive": inc}


def replay(sh, case):
    repo.activate()
    api = argline.Api()
    if case["kind"] == "history":
        reqs = []
        for key, tokens, lenient in case["requests"]:
            reqs.append((tuple(key), c02.FORMATS[key[0]], tokens, lenient))
        run_history(sh, api, reqs, lambda key, d, t, l: reference(api, d, t, l), case)
    elif case["kind"] == "generated-history":
        reqs = []
        for q, (fk, tokens, lenient) in enumerate(case["requests"]):
            reqs.append(((fk, q), case["formats"][int(fk[1:])], tokens, lenient))
        run_history(sh, api, reqs, lambda key, d, t, l: reference(api, d, t, l), case)
    else:
        sh.inconclusive_because("app-history replay: rerun the check with the same VERIF_SEED")
