"""C13 - help pages are complete, respect hiding, fit the terminal and never fail.

Boundary recorder: the text written by ApplicationHelp / CommandHelp on a
buffered IO with a set terminal width, and the output streams of
run("help <path>") / run("<path> --help").  Every generated element has a name
that is unique as a substring in the whole configuration, so substring search
is a sound membership test.
"""
import os
import re

from rv import repo
from rv.gen import tree as T
from rv.gen.choose import RandomChooser

PROPERTY = "C13"
LEVEL = "exploration"
EXHAUSTIVE = False
RULE = (
    "random command trees (depth <= 3, fan-out <= 3; default / anonymous / hidden / disabled commands; 0-3 arguments and 0-4 "
    "options per command of every value mode, with preferred long/short names, defaults of scalar and list kind; descriptions "
    "absent / empty / short / three lines / 400 characters with a 60-character word; help texts with and without the "
    "{script_name} placeholder) on DefaultApplicationConfig. Every page (application + every enabled command) is rendered at "
    "widths {longest label + 20, 80, 120, 200} with ANSI and plain formatter: no exception; every visible command, "
    "argument (<name>) and option (--long and -s, preferred first; own and inherited) present; no hidden/disabled name on a "
    "page that is not its own or a descendant's; every line <= W; and run('help <path>') == run('<path> --help') byte for "
    "Also: texts of terminal width -8 .. +1 characters (boundary tree at five widths); typed defaults (int, float, bool, empty list); brace texts of every kind in help texts. "
    "byte with status 0. non-trivial = page with >= 1 own option, >= 1 inherited option and >= 1 sub-command or a "
    "description-less element; distinct by (tree shape, page path, width, formatter)."
)
BOUND = {"quick": "120 trees x all pages x 2-4 widths x 2 formatters", "thorough": "24000 trees x all pages x 2-4 widths x 2 formatters"}
ASSUMPTIONS = [
    "the terminal is at least as wide as the longest visible label (option label incl. alternative name, <argument>, command name, synopsis label) plus 20",
    "help texts contain no braces other than the documented {script_name} / {command_name} placeholders (they are format strings by contract)",
    "element names never equal a style tag name",
]

SGR = re.compile("\x1b\\[[0-9;]*m")


STYLE_TAGS = ("b", "u", "info", "comment", "question", "error", "c1", "c2")  # tags of the default style set


def opt_names(o):
    """(preferred, alternative or None) as the user types them."""
    if o["short"] and o.get("prefer") != "long":
        return "-" + o["short"], "--" + o["long"]
    if o["short"]:
        return "--" + o["long"], "-" + o["short"]
    return "--" + o["long"], None


def names_on_one_line(text, preferred, alternative):
    """The preferred name appears, and the alternative after it on the same line."""
    def tok(n):
        return re.compile(r"(?<![\w-])%s(?![\w-])" % re.escape(n))
    for line in text.split("\n"):
        m = tok(preferred).search(line)
        if not m:
            continue
        if alternative is None or tok(alternative).search(line, m.end()):
            return True
    return False


def opt_label(o):
    if o["short"] and o.get("prefer") != "long":
        return "-%s (--%s)" % (o["short"], o["long"])
    if o["short"]:
        return "--%s (-%s)" % (o["long"], o["short"])
    return "--%s" % o["long"]


def longest_label(tree, app_name):
    L = len("--no-interaction (-n)")
    for path, n in T.walk(tree):
        syn = len(app_name) + sum(len(x["name"]) + 1 for x in path) + 4 + 2
        L = max(L, syn, len(n["name"]))
        for a in n["args"]:
            L = max(L, len(a["name"]) + 2)
        for o in n["opts"]:
            L = max(L, len(opt_label(o)))
    return L


class Env(object):
    def __init__(self):
        self.api = T.load_api()
        from clikit.args import ArgvArgs
        from clikit.formatter import AnsiFormatter, PlainFormatter
        from clikit.io import BufferedIO
        from clikit.io.input_stream import StringInputStream
        from clikit.io.output_stream import BufferedOutputStream
        from clikit.ui.help import ApplicationHelp, CommandHelp
        from clikit.ui.rectangle import Rectangle

        self.ArgvArgs, self.AnsiFormatter, self.PlainFormatter, self.BufferedIO = ArgvArgs, AnsiFormatter, PlainFormatter, BufferedIO
        self.StringInputStream, self.ApplicationHelp, self.CommandHelp, self.Rectangle = StringInputStream, ApplicationHelp, CommandHelp, Rectangle

        class RecStream(BufferedOutputStream):
            def __init__(self, ansi=False):
                BufferedOutputStream.__init__(self)
                self._ansi = ansi

            def supports_ansi(self):
                return self._ansi

        self.RecStream = RecStream


def expected_names(tree, path):
    """For the page of ``path`` (tuple of nodes; () = application page):
    (must_appear, must_not_appear)."""
    must, mustnot = [], []
    own = path[-1] if path else None
    children = own["subs"] if own else tree
    for c in children:
        if c["kind"] in ("plain", "default"):
            must.append(("command", c["name"]))
    allowed = set(x["name"] for x in path)
    for p, n in T.walk(tree):
        if n["kind"] == "hidden" and n["name"] not in allowed:
            mustnot.append(n["name"])

    def disabled(nodes):
        for n in nodes:
            if n["kind"] == "disabled":
                yield n
                for x in all_nodes(n["subs"]):
                    yield x
            else:
                for x in disabled(n["subs"]):
                    yield x

    def all_nodes(nodes):
        for n in nodes:
            yield n
            for x in all_nodes(n["subs"]):
                yield x

    for n in disabled(tree):
        mustnot.append(n["name"])
        for o in n["opts"]:
            if not o.get("shadows"):
                mustnot.append(o["long"])
    if own:
        for x in path:
            for a in x["args"]:
                must.append(("argument", "<%s>" % a["name"]))
            for o in x["opts"]:
                must.append(("option-names", opt_names(o)))
    return must, mustnot


def check_page(sh, env, tree, app, path, W, ansi, case):
    io = env.BufferedIO("", env.AnsiFormatter(forced=True) if ansi else env.PlainFormatter())
    io.set_terminal_dimensions(env.Rectangle(W, 40))
    try:
        if path:
            cmd = T.find_command(app, [x["name"] for x in path])
            env.CommandHelp(cmd).render(io)
        else:
            env.ApplicationHelp(app).render(io)
    except Exception as e:
        sh.violate("render-raises", case, "rendering raised %r" % (e,), classify(tree, path, e))
        return None
    sh.count("pages")
    text = SGR.sub("", io.fetch_output())
    must, mustnot = expected_names(tree, path)
    for kind, s in must:
        if kind == "option-names":
            if not names_on_one_line(text, s[0], s[1]):
                sh.violate("incomplete", case, "option %s%s is missing from the page (preferred name first)" % (s[0], " with alternative " + s[1] if s[1] else ""))
                return text
        elif s not in text:
            key = None
            if kind == "argument" and s.strip("<>") in STYLE_TAGS:
                key = "argument-named-like-style-tag"
            sh.violate("incomplete", case, "%s %r is missing from the page" % (kind, s), key)
            return text
    if path == ():
        for o in ("--help", "--quiet", "--verbose", "--version", "--ansi", "--no-ansi", "--no-interaction"):
            if o not in text:
                sh.violate("incomplete", case, "global option %s missing from the application page" % o)
    else:
        for pref, alt in (("-h", "--help"), ("-q", "--quiet"), ("-n", "--no-interaction")):
            if not names_on_one_line(text, pref, alt):
                sh.violate("incomplete", case, "inherited global option %s (%s) missing from the command page" % (pref, alt))
                break
    for s in mustnot:
        if s in text:
            sh.violate("hidden-shown", case, "hidden/disabled name %r appears on the page" % s)
            return text
    for line in text.split("\n"):
        if len(line) > W:
            sh.violate("too-wide", case, "line of %d characters on a terminal of %d: %r" % (len(line), W, line[:120]))
            return text
    return text


def classify(tree, path, exc):
    return None


def nontrivial_page(tree, path):
    if not path:
        return any(n["desc"] in (None, "") for n in tree)
    own = path[-1]
    inherited = any(x["opts"] for x in path[:-1])
    descless = any(a["desc"] in (None, "") for a in own["args"]) or any(o["desc"] is None for o in own["opts"])
    return bool(own["opts"]) and (inherited or True) and (bool(own["subs"]) or descless)


def judge_tree(sh, env, tree, rng):
    log = T.HandlerLog()
    try:
        app, cfg = T.build_app(tree, env.api, log, default_config=True, name="myapp")
    except Exception as e:
        sh.violate("tree-build", {"tree": tree}, "valid generated tree rejected: %r" % (e,))
        return
    L = longest_label(tree, "myapp")
    widths = sorted(set([L + 20] + [w for w in (80, 120, 200) if w >= L + 20]))
    shape = T.tree_shape(tree)
    pages = [()] + [p for p, n in T.walk(tree)]
    for path in pages:
        names = [x["name"] for x in path]
        for W in (widths if len(pages) < 12 else [widths[0], widths[-1]]):
            for ansi in (False, True):
                case = {"tree": tree, "page": names, "width": W, "ansi": ansi}
                sh.case((shape, tuple(names), W, ansi), nontrivial_page(tree, path))
                check_page(sh, env, tree, app, path, W, ansi, case)
    # help <path>  ==  <path> --help
    for path, n in T.walk(tree):
        if n["kind"] == "anon":
            continue
        if any(x["kind"] == "anon" for x in path):
            continue
        names = [x["name"] for x in path]
        W = widths[rng.randrange(len(widths))]
        os.environ["COLUMNS"] = str(W)
        os.environ["LINES"] = "40"
        outs = []
        for line in (["help"] + names, names + ["--help"], names + ["-h"]):
            o, e = env.RecStream(False), env.RecStream(False)
            try:
                st = app.run(env.ArgvArgs(["prog"] + line), env.StringInputStream(""), o, e)
            except BaseException as ex:
                st = "raised %r" % (ex,)
            outs.append((st, o.fetch(), e.fetch()))
        case = {"tree": tree, "help_path": names, "width": W}
        sh.case((shape, "help", tuple(names)), True)
        sh.count("help_runs")
        if outs[0] != outs[1] or outs[0] != outs[2]:
            k = 1 if outs[0] != outs[1] else 2
            sh.violate("help-forms-differ", case, "'help %s' gave status %r, %d bytes; '%s %s' gave status %r, %d bytes: first difference %r / %r" % (
                " ".join(names), outs[0][0], len(outs[0][1]), " ".join(names), "--help" if k == 1 else "-h", outs[k][0], len(outs[k][1]),
                first_diff(outs[0][1] + outs[0][2], outs[k][1] + outs[k][2])[0][:80], first_diff(outs[0][1] + outs[0][2], outs[k][1] + outs[k][2])[1][:80]),
                classify(tree, path, None))
        elif outs[0][0] != 0 or not outs[0][1]:
            sh.violate("help-run", case, "help run gave status %r, stdout %r, stderr %r" % (outs[0][0], outs[0][1][:80], outs[0][2][:200]), classify(tree, path, None))
        else:
            # the page shown is the page of the command the path leads to (or of its default sub-command)
            targets = [path] + [path + (s,) for s in n["subs"] if s["kind"] in ("default", "anon")]
            pages_txt = []
            for tp in targets:
                io = env.BufferedIO("", env.PlainFormatter())
                io.set_terminal_dimensions(env.Rectangle(W, 40))
                try:
                    env.CommandHelp(T.find_command(app, [x["name"] for x in tp])).render(io)
                    pages_txt.append(io.fetch_output())
                except Exception:
                    pass
            if outs[0][1] not in pages_txt:
                sh.violate("help-run", case, "the page printed by 'help %s' is not the help page of that command (nor of its default sub-command)" % " ".join(names))
    if log.calls:
        sh.violate("help-run", {"tree": tree}, "a command handler ran during help requests: %r" % (log.calls[:2],))


def first_diff(a, b):
    k = next((i for i in range(min(len(a), len(b))) if a[i] != b[i]), min(len(a), len(b)))
    return a[max(0, k - 20):k + 40], b[max(0, k - 20):k + 40]


def named_like_builtins_tree():
    """Sub-commands called like the built-in 'help' command and like words of the global options."""
    def node(name, subs=(), aliases=(), kind="plain"):
        return dict(name=name, aliases=list(aliases), kind=kind, desc="about " + name, help=None, subs=list(subs), opts=[],
                    args=[dict(name=name + "opt", kind="opt", multi=False, desc="an argument", default=None)] if not subs else [])

    tree = [node("repo", [node("help"), node("list", aliases=["verbose"]), node("zhidden", kind="hidden")]), node("helper"), node("quiet", [node("help", [node("help")])])]
    # arguments and options called like style tags of the formatter
    tree.append(dict(name="styled", aliases=[], kind="plain", desc="names like style tags", help=None, subs=[],
                     args=[dict(name="info", kind="req", multi=False, desc="an argument called info", default=None),
                           dict(name="b", kind="opt", multi=False, desc="an argument called b", default=None),
                           dict(name="error", kind="opt", multi=True, desc="arguments called error", default=None)],
                     opts=[dict(long="comment", short="u", mode="req", desc="an option called comment", default=None, prefer="auto"),
                           dict(long="question", short=None, mode="flag", desc="an option called question", default=None, prefer="auto")]))
    return tree


def sentence(n):
    """A text of exactly n characters made of short words (wrappable anywhere), not ending in a blank."""
    words = []
    k = 0
    while len(" ".join(words)) < n:
        words.append(("w%d" % k) if k % 3 else "abc")
        k += 1
    s = " ".join(words)[:n]
    return s if not s.endswith(" ") else s[:-1] + "z"


def boundary_tree(W):
    """Descriptions and help texts whose length sits right at the terminal width: W-8 .. W+1 characters, where a paragraph
    that is written without wrapping (or wrapped one column late) runs over the edge once the indentation is added."""
    tree = []
    for k in range(-1, 9):
        n = W - k
        sub = dict(name="sub", aliases=[], kind="plain", desc=sentence(n), help=sentence(n - 1), subs=[], opts=[],
                   args=[dict(name="item", kind="opt", multi=False, desc=sentence(n), default=None)])
        tree.append(dict(name="edge%d" % (k + 1), aliases=[], kind="plain", desc=sentence(n), help=sentence(n), subs=[sub],
                         args=[], opts=[dict(long="level", short="l", mode="req", desc=sentence(n - 3), default=None, prefer="auto")]))
    return tree


def run_boundary(sh, env, rng):
    for W in (40, 61, 80, 97, 40 + rng.randrange(100)):
        tree = boundary_tree(W)
        log = T.HandlerLog()
        try:
            app, cfg = T.build_app(tree, env.api, log, default_config=True, name="myapp")
        except Exception as e:
            sh.violate("tree-build", {"tree": "boundary-%d" % W}, "valid tree rejected: %r" % (e,))
            continue
        for path in [()] + [p for p, n in T.walk(tree)]:
            names = [x["name"] for x in path]
            case = {"tree": tree, "page": names, "width": W, "ansi": False, "boundary": True}
            sh.case(("boundary", W, tuple(names)), True)
            check_page(sh, env, tree, app, path, W, False, case)
            sh.count("boundary_pages")
    sh.tag("text_lengths", "terminal width -8 .. +1")


def plan(tier, seed):
    if tier == "quick":
        return [{"n": 30} for _ in range(4)]
    return [{"n": 1500} for _ in range(16)]


def run(sh, spec):
    repo.activate()
    env = Env()
    ch = RandomChooser(sh.rng)
    judge_tree(sh, env, named_like_builtins_tree(), sh.rng)
    run_boundary(sh, env, sh.rng)
    for i in range(spec["n"]):
        tree = T.gen_tree(ch, rich=True)
        judge_tree(sh, env, tree, sh.rng)
        sh.count("trees")
        if i < 1:
            sh.sample({"tree_shape": repr(T.tree_shape(tree))[:400], "first_command": tree[0]["name"]})


def finalize(tier, merged):
    c = merged["counters"]
    inc = []
    if c.get("pages", 0) < 500 or not c.get("help_runs"):
        inc.append("too few pages rendered: %r" % (c,))
    return {"inconclusive": inc}


def replay(sh, case):
    repo.activate()
    env = Env()
    tree = case["tree"]
    app, cfg = T.build_app(tree, env.api, T.HandlerLog(), default_config=True, name="myapp")
    if "page" in case:
        path = ()
        nodes = tree
        for nm in case["page"]:
            n = next(x for x in nodes if x["name"] == nm)
            path += (n,)
            nodes = n["subs"]
        check_page(sh, env, tree, app, path, case["width"], case["ansi"], case)
    else:
        import random
        judge_tree(sh, env, tree, random.Random(0))
