"""C14 - tables render as a rectangle within the terminal and keep every cell's text.

Boundary recorder: the text written by Table.render(io, indentation) on a
buffered IO with a set terminal width.  Every column uses its own two-letter
alphabet (header cells in upper case), so each visible character can be
attributed to its column without trusting separators.
"""
import copy
import re

from rv import repo

PROPERTY = "C14"
LEVEL = "exploration"
EXHAUSTIVE = False
RULE = (
    "random tables: 1-6 columns x 1-6 rows; cell classes {empty, 1 word, 5 words, 40 words, one 60-300 character word, "
    "style-tagged words (dedicated tables), totals up to 1500}; column-length profiles chosen to drive the width "
    "distribution (all short, one long, several long, extreme ratios, near-threshold); header yes/no; styles ascii / solid / "
    "borderless / compact and variants with a visible padding character; alignments left/right/center per column; terminal "
    "width from the minimum the statement allows up to 200; indentation 0-8; ANSI and plain formatter. Clauses: no "
    "exception; every line <= W; rectangle (equal widths for styles with a visible right edge, <= common width otherwise); "
    "vertical borders at the same offsets on every row line and columns' characters inside their span; per-column text "
    "Also: a custom border style with three different vertical border characters (their roles are read off every row line); a style added to the formatter after the I/O was built, used in cells; rows of the wrong size are refused and leave the table as it was. "
    "top-to-bottom equals the cells' text; header and rows unchanged. non-trivial = at least one column wrapped (natural "
    "width exceeds the available width); distinct by (shape, length-class vector, W, style, alignments)."
)
BOUND = {"quick": "4000 tables", "thorough": "144000 tables"}
ASSUMPTIONS = [
    "precondition from the statement: W - indentation - border width - n*cell padding >= n (one character per column)",
    "styles whose right border is blank have their trailing blanks stripped by design; equality of widths is asserted for them with a visible padding character",
]

LETTERS = ["ab", "cd", "ef", "gh", "ij", "kl"]
# the same per-column alphabets in scripts whose characters are wide on a terminal (the library counts characters)
WIDE = ["日月", "火水", "木金", "土山", "川田", "가나"]
LETTERS = [a + w for a, w in zip(LETTERS, WIDE)]
SGR = re.compile("\x1b\\[[0-9;]*m")
TAG = re.compile(r"</?[a-z0-9]*>")


def visible(s):
    return SGR.sub("", s)


WIDE_TABLE = [False]


def word(rng, col, n, upper=False):
    a = WIDE[col] if WIDE_TABLE[0] else LETTERS[col][:2]
    w = "".join(rng.choice(a) for _ in range(n))
    return w.upper() if upper else w


def gen_cell(rng, col, cls, upper=False, tagged=False):
    if cls == "empty":
        return ""
    if cls == "w1":
        words = [word(rng, col, rng.randint(1, 8), upper)]
    elif cls == "w5":
        words = [word(rng, col, rng.randint(1, 9), upper) for _ in range(5)]
    elif cls == "w40":
        words = [word(rng, col, rng.randint(1, 12), upper) for _ in range(40)]
    elif cls == "long":
        words = [word(rng, col, rng.randint(60, 300), upper)]
    elif cls == "huge":
        words = [word(rng, col, rng.randint(1, 30), upper) for _ in range(rng.randint(60, 110))]
    elif cls == "mid":
        words = [word(rng, col, rng.randint(2, 6), upper) for _ in range(rng.randint(2, 4))]
    else:
        raise AssertionError(cls)
    if tagged:
        words = [("<%s>%s</%s>" % (t, w, t)) if rng.random() < 0.5 else w for w in words for t in [rng.choice(["b", "info", "comment", "u", "hl"])]]  # hl: a style the application adds to the I/O's formatter later
    return " ".join(words)


def escaped_cell(rng, col):
    """A short cell whose text contains literal markup, written with backslash escapes; returns (markup, visible text)."""
    w1, w2 = word(rng, col, rng.randint(1, 4)), word(rng, col, rng.randint(1, 4))
    t = "u"  # a registered tag whose letter belongs to no column alphabet
    return rng.choice([("\\<%s>%s\\</%s>" % (t, w1, t), "<%s>%s</%s>" % (t, w1, t)), ("%s \\<%s> %s" % (w1, t, w2), "%s <%s> %s" % (w1, t, w2)),
                       ("%s \\< %s" % (w1, w2), "%s < %s" % (w1, w2))])


PROFILES = {
    "all-short": lambda rng, n: ["w1"] * n,
    "one-long": lambda rng, n: [("w40" if i == 0 else "w1") for i in range(n)],
    "several-long": lambda rng, n: [rng.choice(["w40", "long", "w5"]) for _ in range(n)],
    "all-long": lambda rng, n: [rng.choice(["w40", "huge", "long"]) for _ in range(n)],
    "extreme": lambda rng, n: [("huge" if i == 0 else rng.choice(["mid", "w1", "w5"])) for i in range(n)],
    "near-threshold": lambda rng, n: [rng.choice(["mid", "w5"]) for _ in range(n)],
    "mixed": lambda rng, n: [rng.choice(["empty", "w1", "w5", "w40", "long", "mid"]) for _ in range(n)],
}
STYLES = ["ascii", "solid", "borderless", "compact", "custom"]  # custom: the ascii style with three different vertical border characters


class Lab(object):
    def __init__(self):
        from clikit.formatter import AnsiFormatter, PlainFormatter
        from clikit.io import BufferedIO
        from clikit.ui.style.alignment import Alignment
        from clikit.ui.components import Table
        from clikit.ui.rectangle import Rectangle
        from clikit.ui.style import TableStyle

        self.AnsiFormatter, self.PlainFormatter, self.BufferedIO = AnsiFormatter, PlainFormatter, BufferedIO
        self.Alignment, self.Table, self.Rectangle, self.TableStyle = Alignment, Table, Rectangle, TableStyle

    def add_late_style(self, io):
        from clikit.api.formatter import Style

        for out in (io.output, io.error_output):
            out.formatter.add_style(Style("hl").fg("black").bg("yellow"))

    def style(self, name, padding, aligns):
        if name == "custom":
            st = self.TableStyle.ascii()
            st.border_style.line_vl_char, st.border_style.line_vc_char, st.border_style.line_vr_char = "[", "!", "]"
        else:
            st = getattr(self.TableStyle, name)()
        if padding != " ":
            st.padding_char = padding
        A = self.Alignment
        for i, a in enumerate(aligns):
            st.set_column_alignment(i, {"L": A.LEFT, "R": A.RIGHT, "C": A.CENTER}[a])
        return st


def border_chars(name):
    """(left, center, right, cell padding per side) of the row lines, by the documented styles."""
    if name == "ascii":
        return "|", "|", "|", 1
    if name == "solid":
        return "│", "│", "│", 1
    if name == "custom":
        return "[", "!", "]", 1
    return "", " ", "", 0


class fake_tty(object):
    """While active, sys.stdout claims to be a terminal (the output under test is still the buffered I/O)."""

    def __init__(self, on):
        self.on = on

    def __enter__(self):
        import sys

        if self.on:
            class Tty(object):
                def __init__(self, real):
                    self._real = real

                def isatty(self):
                    return True

                def __getattr__(self, name):
                    return getattr(self._real, name)

            self.saved = sys.stdout
            sys.stdout = Tty(sys.stdout)

    def __exit__(self, *exc):
        import sys

        if self.on:
            sys.stdout = self.saved
        return False


def gen_table(rng):
    WIDE_TABLE[0] = rng.random() < 0.12
    n = rng.randint(1, 6)
    nrows = rng.randint(1, 6)
    prof = rng.choice(sorted(PROFILES))
    tagged = rng.random() < 0.15
    header = rng.random() < 0.6
    classes = PROFILES[prof](rng, n)
    rows = []
    for r in range(nrows):
        row = []
        for c in range(n):
            cls = classes[c] if rng.random() < 0.7 else rng.choice(["empty", "w1", "w5", "mid"])
            row.append(gen_cell(rng, c, cls, False, tagged))
        rows.append(row)
    hdr = [gen_cell(rng, c, rng.choice(["w1", "w1", "mid", "w5"]), True, False) for c in range(n)] if header else None
    escaped = (not tagged) and rng.random() < 0.1
    if escaped:
        # some cells show literal markup, written with backslash escapes
        for row in rows:
            for c in range(n):
                if rng.random() < 0.4:
                    row[c] = escaped_cell(rng, c)[0]
    shared = (not tagged) and n >= 2 and rng.random() < 0.08
    if shared:
        # identical texts in several columns (column attribution by alphabet is not possible for these tables)
        WIDE_TABLE[0] = False
        pool = [gen_cell(rng, 0, rng.choice(["w5", "w40", "mid", "long"])) for _ in range(3)]
        rows = [[rng.choice(pool) if rng.random() < 0.7 else gen_cell(rng, 0, "w1") for _ in range(n)] for _ in range(nrows)]
        if hdr:
            hdr = [h.upper().translate(str.maketrans("CDEFGHIJKL", "ABABABABAB")) for h in hdr]
    style = rng.choice(STYLES)
    padding = rng.choice([" ", " ", "."])
    aligns = [rng.choice("LLRC") for _ in range(n)] if rng.random() < 0.5 else []
    indent = rng.choice([0, 0, 2, 4, 8])
    l, c, r, pad = border_chars(style)
    fixed = indent + len(l) + len(r) + (n - 1) * len(c) + n * 2 * pad
    wmin = fixed + n
    W = rng.choice([wmin, wmin + 1, wmin + rng.randint(0, 10), rng.randint(max(20, wmin), max(200, wmin)), 80, 120, 200])
    W = max(W, wmin)
    wide = WIDE_TABLE[0]
    WIDE_TABLE[0] = False
    return dict(header=hdr, rows=rows, style=style, padding=padding, aligns=aligns, indent=indent, width=W, ansi=rng.random() < 0.5,
                profile=prof, tagged=tagged, classes=classes, shared=shared, wide=wide, tty=rng.random() < 0.3, escaped=escaped)


def natural(case):
    """Natural column lengths, available width and which columns are 'long' by the documented algorithm."""
    n = len(case["rows"][0])
    cells = ([case["header"]] if case["header"] else []) + case["rows"]
    if case.get("escaped"):
        # escaped markup is text: '\\<u>' shows as '<u>' and counts three characters
        lens = [max(len(row[c].replace("\\<", "<").rstrip()) for row in cells) for c in range(n)]
    else:
        lens = [max(len(TAG.sub("", row[c]).rstrip()) for row in cells) for c in range(n)]
    l, c, r, pad = border_chars(case["style"])
    avail = case["width"] - case["indent"] - len(l) - len(r) - (n - 1) * len(c) - n * 2 * pad
    wraps = sum(lens) > avail
    long_cols = [i for i in range(n) if lens[i] > avail / float(n)] if wraps else []
    return lens, avail, wraps, long_cols


def classify(case, clause):
    lens, avail, wraps, long_cols = natural(case)
    if not wraps:
        return None
    if (case["tagged"] or case.get("escaped")) and clause in ("raises", "text-preserved", "column-span", "rectangle", "width"):
        # the wrapper knows nothing about markup: it cuts tags - and backslash escapes - apart
        cells = ([case["header"]] if case["header"] else []) + case["rows"]
        if any("<" in row[c] for row in cells for c in long_cols):
            if case["tagged"] and clause in ("width", "rectangle", "column-span") and case.get("markup_visible") is False:
                # the mechanism of the known finding leaves its mark: pieces of a cut tag are printed. A geometry
                # violation of a table whose output shows no '<' or '>' at all is something else
                return None
            return "style-tag-cut-by-wrapping"
    return None


def col_of(ch):
    for k in range(6):
        if ch.lower() in LETTERS[k]:
            return k
    return None


def is_row_line(line, case):
    l_ch, c_ch, r_ch, pad = border_chars(case["style"])
    body = line[case["indent"]:]
    if r_ch != "":
        return body[:1] == l_ch
    return not (body.strip() != "" and set(body.strip()) <= set("= "))


def judge(sh, lab, case):
    n = len(case["rows"][0])
    lens, avail, wraps, long_cols = natural(case)
    shape = (n, len(case["rows"]), bool(case["header"]), tuple(case["classes"]), case["width"], case["style"], case["padding"], tuple(case["aligns"]),
             case["indent"], case["ansi"])
    sh.case(shape, wraps)
    sh.tag("profiles", case["profile"])
    sh.tag("long_columns", len(long_cols))
    io = lab.BufferedIO("", lab.AnsiFormatter(forced=True) if case["ansi"] else lab.PlainFormatter())
    io.set_terminal_dimensions(lab.Rectangle(case["width"], 20))
    if case["tagged"]:
        lab.add_late_style(io)
    t = lab.Table(lab.style(case["style"], case["padding"], case["aligns"]))
    hdr = copy.deepcopy(case["header"])
    rows = copy.deepcopy(case["rows"])
    if hdr:
        t.set_header_row(hdr)
    t.add_rows(rows)
    try:
        with fake_tty(case.get("tty")):
            t.render(io, case["indent"])
    except Exception as e:
        sh.violate("raises", case, "Table.render raised %r (available width %d for %d columns, natural lengths %r)" % (e, avail, n, lens), classify(case, "raises"))
        return
    sh.count("renders")
    if wraps:
        sh.count("renders_with_wrapping")
    if case.get("wide"):
        sh.count("renders_wide_script")
    if case.get("escaped"):
        sh.count("renders_with_escaped_markup")
    if case.get("tty") and case["ansi"] and case["tagged"]:
        sh.count("renders_tagged_ansi_with_stdout_tty")
    if hdr != case["header"] or rows != case["rows"]:
        sh.violate("table-modified", case, "render changed the table's header/rows")
    out = io.fetch_output()
    # the table object has no public accessor for its rows: a modified table shows as a different second render
    io2 = lab.BufferedIO("", lab.AnsiFormatter(forced=True) if case["ansi"] else lab.PlainFormatter())
    io2.set_terminal_dimensions(lab.Rectangle(case["width"], 20))
    if case["tagged"]:
        lab.add_late_style(io2)
    try:
        t.render(io2, case["indent"])
        if io2.fetch_output() != out:
            sh.violate("table-modified", case, "a second render of the same table differs from the first (%d vs %d bytes)" % (len(io2.fetch_output()), len(out)))
    except Exception as e:
        sh.violate("table-modified", case, "a second render of the same table raised %r" % (e,), classify(case, "raises"))
    if io.fetch_error():
        sh.violate("wrong-stream", case, "render wrote to the error output")
    if hash(out) % 3 == 0 and not (case["tagged"] and classify(case, "raises")):
        # rows of the wrong size are refused; a refused call leaves the table as it was
        refused = []
        for what, call in (("set_header_row", lambda: t.set_header_row(["X"] * (n + 1))), ("add_row", lambda: t.add_row(["X"] * (n + 1))),
                           ("add_rows", lambda: t.add_rows([["X"] * (n + 2)])), ("set_header_row-short", lambda: t.set_header_row(["X"] * (n - 1)) if n > 1 else t.set_header_row([]))):
            try:
                call()
                refused.append((what, False))
            except ValueError:
                refused.append((what, True))
            except Exception as e:
                sh.violate("table-modified", case, "%s with a row of the wrong size raised %r" % (what, e))
        io5 = lab.BufferedIO("", lab.AnsiFormatter(forced=True) if case["ansi"] else lab.PlainFormatter())
        io5.set_terminal_dimensions(lab.Rectangle(case["width"], 20))
        if case["tagged"]:
            lab.add_late_style(io5)
        sh.count("refused_row_checks")
        if not all(r for _, r in refused):
            sh.violate("table-modified", case, "a row of the wrong size was accepted: %r" % ([w for w, r in refused if not r],))
        else:
            try:
                t.render(io5, case["indent"])
                if io5.fetch_output() != out:
                    sh.violate("table-modified", case, "after refused set_header_row / add_row calls the table renders differently (%d vs %d bytes)" % (len(io5.fetch_output()), len(out)))
            except Exception as e:
                sh.violate("table-modified", case, "after refused set_header_row / add_row calls rendering raised %r" % (e,))
    if hash(out) % 4 == 0:
        def upper_text(cell):
            # the text in capitals, the style tags as they are (tag names are lower-case words)
            return "".join(part if TAG.fullmatch(part) else part.upper() for part in re.split(r"(</?[a-z0-9]*>)", cell))

        new_hdr = [upper_text(c + " N") if c else "N" for c in (case["header"] or case["rows"][0])]
        new_hdr = [h if h.strip() else "N" for h in new_hdr]
        extra_row = list(case["rows"][0])
        try:
            variant = (hash(out) // 4) % 3
            added = []
            if variant == 0:
                t.set_header_row(list(new_hdr))  # only the header changes
            elif variant == 1:
                t.add_row(list(extra_row))
                t.set_header_row(list(new_hdr))
                added = [list(extra_row)]
            else:
                t.set_header_row(list(new_hdr))
                t.add_row(list(extra_row))
                added = [list(extra_row)]
            io3 = lab.BufferedIO("", lab.AnsiFormatter(forced=True) if case["ansi"] else lab.PlainFormatter())
            io3.set_terminal_dimensions(lab.Rectangle(case["width"], 20))
            if case["tagged"]:
                lab.add_late_style(io3)  # every I/O of a tagged case knows the tags its cells use
            t.render(io3, case["indent"])
            fresh = lab.Table(lab.style(case["style"], case["padding"], case["aligns"]))
            fresh.set_header_row(list(new_hdr))
            fresh.add_rows(copy.deepcopy(case["rows"]) + added)
            io4 = lab.BufferedIO("", lab.AnsiFormatter(forced=True) if case["ansi"] else lab.PlainFormatter())
            io4.set_terminal_dimensions(lab.Rectangle(case["width"], 20))
            if case["tagged"]:
                lab.add_late_style(io4)  # every I/O of a tagged case knows the tags its cells use
            fresh.render(io4, case["indent"])
            sh.count("modify_then_render")
            if io3.fetch_output() != io4.fetch_output():
                sh.violate("table-modified", case, "after set_header_row/add_row the table renders differently from a new table with the same content")
        except Exception as e:
            # the known finding is judged on the table that was being rendered: the new header / the added row may make a
            # column wrap (and a tag be cut) that did not wrap before
            mod_case = dict(case, header=[h.lower() for h in new_hdr], rows=copy.deepcopy(case["rows"]) + added)
            if not (case["tagged"] and (classify(case, "raises") or classify(mod_case, "raises"))):
                sh.violate("table-modified", case, "re-rendering after set_header_row/add_row raised %r" % (e,), classify(mod_case, "raises"))
    lines = [visible(l) for l in out.split("\n")]
    if lines and lines[-1] == "":
        lines.pop()
    W = case["width"]
    if case["tagged"]:
        case["markup_visible"] = any(("<" in l or ">" in l) for l in lines)
    # (2) width
    too_wide = [l for l in lines if len(l) > W]
    if too_wide:
        sh.violate("width", case, "a line of %d characters on a terminal of %d: %r" % (len(too_wide[0]), W, too_wide[0][:100]), classify(case, "width"))
        return
    l_ch, c_ch, r_ch, pad = border_chars(case["style"])
    # (3) rectangle
    widths = set(len(l) for l in lines)
    visible_edge = r_ch != "" or case["padding"] != " "
    if r_ch != "" and len(widths) != 1:
        sh.violate("rectangle", case, "lines of different widths %r" % sorted(widths), classify(case, "rectangle"))
        return
    if case.get("shared"):
        # only the clauses that need no column attribution: total text, in reading order per column is not decidable
        want = sorted("".join(re.sub(r"\s+", "", c) for row in (([case["header"]] if case["header"] else []) + case["rows"]) for c in row))
        got = sorted(ch for l in lines if is_row_line(l, case) for ch in l if ch.isalpha())
        sh.count("shared_text_tables")
        if got != want:
            sh.violate("text-preserved", case, "the rendered table has %d letters, the cells %d" % (len(got), len(want)))
        return
    # (4) column spans
    ind = case["indent"]
    row_lines = [l for l in lines if is_row_line(l, case)]
    if r_ch != "":
        border_pos = None
        for l in row_lines:
            pos = [i for i, ch in enumerate(l) if ch in (l_ch, c_ch, r_ch)]
            roles = "".join(l[i] for i in pos)
            if len(pos) == n + 1 and roles != l_ch + c_ch * (n - 1) + r_ch:
                sh.violate("column-span", case, "the vertical borders of a row line read %r, the style says %r" % (roles, l_ch + c_ch * (n - 1) + r_ch))
                return
            if border_pos is None:
                border_pos = pos
            elif pos != border_pos:
                sh.violate("column-span", case, "vertical borders at %r in one row line and at %r in another" % (border_pos, pos), classify(case, "column-span"))
                return
        if border_pos is not None:
            if len(border_pos) != n + 1 or border_pos[0] != ind:
                sh.violate("column-span", case, "expected %d vertical borders starting at offset %d, found %r" % (n + 1, ind, border_pos))
                return
            for l in lines:
                if l in row_lines:
                    continue
                cross = [i for i, ch in enumerate(l) if ch in "+┼├┤┬┴┌┐└┘"]
                if cross != border_pos:
                    sh.violate("column-span", case, "border line crossings at %r, row borders at %r" % (cross, border_pos))
                    return
            spans = [(border_pos[i] + 1, border_pos[i + 1]) for i in range(n)]
            for l in row_lines:
                for i, ch in enumerate(l):
                    if ch.isalpha():
                        c = col_of(ch)
                        if c is None and case.get("escaped") and ch == "u":
                            continue  # the letter of the literal '<u>' markup
                        if c is None or c >= n or not (spans[c][0] <= i < spans[c][1]):
                            sh.violate("column-span", case, "character %r of column %r at offset %d outside its span %r" % (ch, c, i, spans[c] if c is not None and c < n else None),
                                       classify(case, "column-span"))
                            return
    else:
        lo = [None] * n
        hi = [None] * n
        for l in row_lines:
            for i, ch in enumerate(l):
                if ch.isalpha():
                    c = col_of(ch)
                    if c is None and case.get("escaped") and ch == "u":
                        continue
                    if c is None or c >= n:
                        sh.violate("column-span", case, "foreign character %r" % ch, classify(case, "column-span"))
                        return
                    lo[c] = i if lo[c] is None else min(lo[c], i)
                    hi[c] = i if hi[c] is None else max(hi[c], i)
        # horizontal rules of the border-less styles are drawn per column: every column's text lies under its own segment
        if case["padding"] == " ":
            for l in lines:
                body = l[ind:]
                chars = set(body) - set(" ")
                if len(chars) != 1 or next(iter(chars)) not in "=-_~\u2500\u2501\u2550":
                    continue  # not a horizontal rule
                segs = [(m.start() + ind, m.end() + ind) for m in re.finditer(r"\S+", body)]
                sh.count("rule_lines_checked")
                last = -1
                for c in range(n):
                    if lo[c] is None:
                        continue
                    k = next((j for j, (a, b) in enumerate(segs) if a <= lo[c] < b), None)
                    if k is None or hi[c] >= segs[k][1] or k <= last:
                        sh.violate("column-span", case, "the rule %r does not span column %d (text at offsets %d..%d, rule segments %r)" % (l[:60], c, lo[c], hi[c], segs[:8]),
                                   classify(case, "column-span"))
                        return
                    last = k
        prev = ind - 1
        for c in range(n):
            if lo[c] is None:
                continue
            if lo[c] <= prev:
                sh.violate("column-span", case, "column %d occupies offsets %d..%d, overlapping the previous column ending at %d" % (c, lo[c], hi[c], prev),
                           classify(case, "column-span"))
                return
            prev = hi[c]
    # (5) text preservation per column
    cells = ([case["header"]] if case["header"] else []) + case["rows"]
    for c in range(n):
        want = "".join(ch for row in cells for ch in TAG.sub("", row[c]) if ch.isalpha() and ch.lower() in LETTERS[c])
        got = "".join(ch for l in row_lines for ch in l if ch.isalpha() and ch.lower() in LETTERS[c])
        if got != want:
            k = next((i for i in range(min(len(got), len(want))) if got[i] != want[i]), min(len(got), len(want)))
            sh.violate("text-preserved", case, "column %d: rendered text differs from the cells' text at character %d (%r vs %r; lengths %d/%d)" % (
                c, k, got[max(0, k - 5):k + 10], want[max(0, k - 5):k + 10], len(got), len(want)), classify(case, "text-preserved"))
            return
    # non-letter leftovers of markup
    if case["tagged"] and any(("<" in l or ">" in l) for l in lines):
        sh.violate("text-preserved", case, "markup characters visible in the rendered table", classify(case, "text-preserved"))


def plan(tier, seed):
    if tier == "quick":
        return [{"n": 500} for _ in range(8)]
    return [{"n": 9000} for _ in range(16)]


def run(sh, spec):
    repo.activate()
    lab = Lab()
    for i in range(spec["n"]):
        case = gen_table(sh.rng)
        judge(sh, lab, case)
        if i < 1:
            sh.sample({k: (v if k not in ("rows", "header") else "...%d cells..." % (len(case["rows"]) * len(case["rows"][0]))) for k, v in case.items()})


def finalize(tier, merged):
    c = merged["counters"]
    inc = []
    if c.get("renders_with_wrapping", 0) < 200:
        inc.append("fewer than 200 renders needed wrapping: %r" % (c,))
    return {"inconclusive": inc}


def replay(sh, case):
    repo.activate()
    judge(sh, Lab(), case)
