"""C06 - an args format can never be built into an inconsistent state.

History monitor against a list model.  For every operation sequence the real
ArgsFormatBuilder, the format it builds and a plain-list model are asked every
public query; a rejected single addition must leave all answers unchanged;
the element-list constructor must accept/reject and answer like the builder.
"""
import itertools

from rv import repo

PROPERTY = "C06"
LEVEL = "exploration"
EXHAUSTIVE = {"quick": True, "thorough": True}
RULE = (
    "24-operation alphabet over a colliding name pool (4 long names, 3 short letters, aliases, 3 argument names): add_option x6, "
    "add_command_option x7 (0-2 long/short aliases), add_argument x6 (required/optional/multi), add_command_name, set_options, "
    "set_arguments x2, set_command_options; 9 base stacks of depth 0-3 (three of them with levels that define nothing). Every sequence up to length L is replayed from scratch; "
    "after the last operation builder, built format and list model answer every public query (has/get option and command "
    "option for 8 names, has/get argument by 4 names and all positions, the has_* predicates, ordered listings, each with "
    "include_base True/False); a rejected add_* must leave the answers identical to those before it; invariants are checked "
    "on the listings; sequences of add_* operations are also fed to ArgsFormat(elements, base). Commands stacking their "
    "Also: after the final comparison the builder goes on and every container a query returned is mutated, then the built format is asked again (it is a value); after a replacement that failed half-way the real builder goes on and must still end consistent. "
    "format through CommandConfig.build_args_format are compared with the same model. non-trivial = sequence containing a "
    "collision or ordering-rule attempt (some operation rejected, or a set_* after an add_*); distinct by (base id, op tuple)."
)
BOUND = {
    "quick": "all sequences of length <= 3 over 29 operations x 9 base stacks (228k), 30000 random of length 4-7, 3000 CommandConfig stacks",
    "thorough": "all sequences of length <= 4 x 9 base stacks (6.6M), 600000 random of length 5-7, 60000 CommandConfig stacks",
}
ASSUMPTIONS = [
    "option listings are compared as sets against the model and in order between builder and format; argument and command-name listings in order (base first)",
    "command-option listings are compared after removing repeated entries of the same object (an option is listed under each alias)",
    "negative integers are not positions (left to C02)",
]

LONGS = ["aa", "bb", "cc", "dd"]
SHORTS = ["a", "b", "c"]
ARGS = ["x", "y", "z"]
PROBE_NAMES = LONGS + SHORTS + ["zz", "ee"]


def O(long, short):
    return ("opt", long, short)


def CO(long, short, aliases=()):
    return ("copt", long, short, tuple(aliases))


def A(name, kind, multi=False):
    return ("arg", name, kind, multi)


OPS = [
    ("add", O("aa", "a")), ("add", O("aa", None)), ("add", O("bb", "a")), ("add", O("bb", "b")), ("add", O("cc", None)), ("add", O("cc", "c")),
    ("add", CO("aa", None)), ("add", CO("bb", "b")), ("add", CO("dd", None, ["aa"])), ("add", CO("dd", "c", ["a"])), ("add", CO("cc", None, ["bb", "b"])),
    ("add", CO("cc", None, ["b"])), ("add", CO("aa", None, ["c"])),
    ("add", A("x", "req")), ("add", A("x", "opt")), ("add", A("y", "req")), ("add", A("y", "opt")), ("add", A("z", "opt", True)), ("add", A("y", "req", True)),
    ("add", ("name", "cmd", ("c1",))),
    ("set_options", (O("aa", "a"), O("bb", None))),
    ("set_arguments", (A("x", "req"), A("z", "opt", True))),
    ("set_arguments", ()),
    ("set_command_options", (CO("dd", None, ["cc"]),)),
    # aliases written with their dashes; batches whose members conflict with one another
    ("add", CO("ee", None, ["-a", "--bb"])),
    ("add_arguments", (A("z", "opt", True), A("y", "req"))),
    ("add_arguments", (A("x", "opt"), A("x", "req"))),
    ("add_options", (O("aa", "a"), O("cc", "a"))),
    ("set_arguments", (A("y", "opt"), A("x", "req"))),
    # an alias list that repeats the option's own names
    ("add", CO("dd", "c", ["dd", "--dd", "c"])),
]
BASES = [
    [],
    [[O("aa", "a")]],
    [[A("x", "req")]],
    [[A("x", "opt")]],
    [[CO("dd", "c", ["bb"]), A("y", "req")]],
    [[O("bb", "b"), A("x", "req")], [O("cc", None), A("y", "opt")]],
    # levels that define nothing of their own, above and between levels that do
    [[O("aa", "a"), A("x", "opt")], []],
    [[], [CO("dd", "c", ["bb"])], []],
    [[O("bb", "b")], [], [A("x", "req"), A("y", "opt")]],
]


class Reject(Exception):
    pass


class Model(object):
    """Plain lists; rules written from the statement."""

    def __init__(self, base=None):
        self.base = base
        self.opts, self.copts, self.args, self.names = [], [], [], []

    # names an element answers to
    @staticmethod
    def names_of(e):
        n = [e[1]] + ([e[2]] if e[2] else [])
        if e[0] == "copt":
            n += [a.lstrip("-") for a in e[3]]  # aliases may be written with their dashes
        return n

    def all_opts(self):
        return self.opts + (self.base.all_opts() if self.base else [])

    def all_copts(self):
        return self.copts + (self.base.all_copts() if self.base else [])

    def all_args(self):
        return (self.base.all_args() if self.base else []) + self.args

    def all_names(self):
        return (self.base.all_names() if self.base else []) + self.names

    def taken(self):
        t = set()
        for e in self.all_opts() + self.all_copts():
            t.update(self.names_of(e))
        return t

    def add(self, e):
        if e[0] in ("opt", "copt"):
            if set(self.names_of(e)) & self.taken():
                raise Reject("option")
            (self.opts if e[0] == "opt" else self.copts).append(e)
        elif e[0] == "arg":
            aa = self.all_args()
            if e[1] in [x[1] for x in aa] or any(x[3] for x in aa) or (e[2] == "req" and any(x[2] == "opt" for x in aa)):
                raise Reject("argument")
            self.args.append(e)
        else:
            self.names.append(e)

    def set(self, what, elems):
        if what == "set_options":
            self.opts = []
        elif what == "set_arguments":
            self.args = []
        elif what == "set_command_options":
            self.copts = []
        # add_* batches: one addition after the other, the batch stops at the first rejected member
        for e in elems:
            self.add(e)

    # ---- the query API, same shape as the real classes ----------------------
    def opts_scope(self, ib):
        return self.all_opts() if ib else self.opts

    def copts_scope(self, ib):
        return self.all_copts() if ib else self.copts

    def args_scope(self, ib):
        return self.all_args() if ib else self.args


def model_answers(m):
    out = []
    for ib in (True, False):
        for n in PROBE_NAMES:
            eo = [e for e in m.opts_scope(ib) if n in Model.names_of(e)]
            ec = [e for e in m.copts_scope(ib) if n in Model.names_of(e)]
            out.append(("has_option", n, ib, bool(eo)))
            out.append(("get_option", n, ib, eo[0] if eo else "NoSuchOption"))
            out.append(("has_command_option", n, ib, bool(ec)))
            out.append(("get_command_option", n, ib, ec[0] if ec else "NoSuchOption"))
        aa = m.args_scope(ib)
        for n in ARGS + ["w"]:
            hit = [a for a in aa if a[1] == n]
            out.append(("has_argument", n, ib, bool(hit)))
            out.append(("get_argument", n, ib, hit[0] if hit else "NoSuchArgument"))
        for i in [-1] + list(range(len(m.all_args()) + 2)):
            out.append(("has_argument", i, ib, 0 <= i < len(aa)))
            out.append(("get_argument", i, ib, aa[i] if 0 <= i < len(aa) else "NoSuchArgument"))
        out.append(("has_arguments", ib, bool(aa)))
        out.append(("has_required_argument", ib, any(a[2] == "req" for a in aa)))
        out.append(("has_optional_argument", ib, any(a[2] == "opt" for a in aa)))
        out.append(("has_multi_valued_argument", ib, any(a[3] for a in aa)))
        out.append(("has_options", ib, bool(m.opts_scope(ib))))
        out.append(("has_command_options", ib, bool(m.copts_scope(ib))))
        out.append(("get_arguments", ib, tuple(aa)))
        out.append(("get_options", ib, frozenset(m.opts_scope(ib))))
        out.append(("get_command_options", ib, frozenset(m.copts_scope(ib))))
        names = m.all_names() if ib else m.names
        out.append(("has_command_names", ib, bool(names)))
        out.append(("get_command_names", ib, tuple(names)))
    return out


class Lab(object):
    def __init__(self):
        from clikit.api.args.exceptions import (CannotAddArgumentException, CannotAddOptionException, NoSuchArgumentException,
                                                NoSuchOptionException)
        from clikit.api.args.format import ArgsFormat, ArgsFormatBuilder, Argument, CommandName, CommandOption, Option

        self.ArgsFormat, self.ArgsFormatBuilder = ArgsFormat, ArgsFormatBuilder
        self.Argument, self.CommandName, self.CommandOption, self.Option = Argument, CommandName, CommandOption, Option
        self.reject = (CannotAddOptionException, CannotAddArgumentException)
        self.nso, self.nsa = NoSuchOptionException, NoSuchArgumentException
        self.keys = {}

    def mk(self, e):
        if e[0] == "opt":
            o = self.Option(e[1], e[2])
        elif e[0] == "copt":
            o = self.CommandOption(e[1], e[2], list(e[3]))
        elif e[0] == "arg":
            A_ = self.Argument
            o = A_(e[1], (A_.REQUIRED if e[2] == "req" else A_.OPTIONAL) | (A_.MULTI_VALUED if e[3] else 0))
        else:
            o = self.CommandName(e[1], list(e[2]))
        self.keys[id(o)] = (e, o)
        return o

    def key(self, obj):
        k = self.keys.get(id(obj))
        if k is None or k[1] is not obj:
            return ("foreign", repr(obj))
        return k[0]

    def real_answers(self, q, nargs, order_sensitive):
        """Same shape as model_answers; plus the raw ordered listings."""
        out = []
        ordered = []

        def get(fn, *a):
            try:
                return self.key(fn(*a))
            except self.nso:
                return "NoSuchOption"
            except self.nsa:
                return "NoSuchArgument"

        for ib in (True, False):
            for n in PROBE_NAMES:
                out.append(("has_option", n, ib, bool(q.has_option(n, ib))))
                out.append(("get_option", n, ib, get(q.get_option, n, ib)))
                out.append(("has_command_option", n, ib, bool(q.has_command_option(n, ib))))
                out.append(("get_command_option", n, ib, get(q.get_command_option, n, ib)))
            for n in ARGS + ["w"]:
                out.append(("has_argument", n, ib, bool(q.has_argument(n, ib))))
                out.append(("get_argument", n, ib, get(q.get_argument, n, ib)))
            for i in [-1] + list(range(nargs + 2)):
                out.append(("has_argument", i, ib, bool(q.has_argument(i, ib))))
                out.append(("get_argument", i, ib, get(q.get_argument, i, ib)))
            out.append(("has_arguments", ib, bool(q.has_arguments(ib))))
            out.append(("has_required_argument", ib, bool(q.has_required_argument(ib))))
            out.append(("has_optional_argument", ib, bool(q.has_optional_argument(ib))))
            out.append(("has_multi_valued_argument", ib, bool(q.has_multi_valued_argument(ib))))
            out.append(("has_options", ib, bool(q.has_options(ib))))
            out.append(("has_command_options", ib, bool(q.has_command_options(ib))))
            args = q.get_arguments(ib)
            out.append(("get_arguments", ib, tuple(self.key(a) for a in args.values())))
            if [a.name for a in args.values()] != list(args.keys()):
                out.append(("get_arguments-keys-mismatch", ib, tuple(args.keys())))
            opts = q.get_options(ib)
            out.append(("get_options", ib, frozenset(self.key(o) for o in opts.values())))
            copts = list(q.get_command_options(ib))
            uniq = []
            for c in copts:
                if not any(c is u for u in uniq):
                    uniq.append(c)
            out.append(("get_command_options", ib, frozenset(self.key(c) for c in uniq)))
            if len(uniq) != len(copts):
                # an element is listed once, whatever the number of names it answers to
                out.append(("get_command_options-lists-an-element-twice", ib, tuple(self.key(c) for c in copts)))
            out.append(("has_command_names", ib, bool(q.has_command_names(ib))))
            out.append(("get_command_names", ib, tuple(self.key(c) for c in q.get_command_names(ib))))
            ordered.append(("options-order", ib, tuple(self.key(o) for o in opts.values())))
            ordered.append(("command-options-order", ib, tuple(self.key(c) for c in copts)))
        return out, ordered


def invariants(m_answers):
    """Invariants evaluated on what the *real* object lists (answers in model shape)."""
    probs = []
    d = {}
    for a in m_answers:
        d[a[:-1]] = a[-1]
    aa = d[("get_arguments", True)]
    multis = [i for i, a in enumerate(aa) if isinstance(a, tuple) and a[0] == "arg" and a[3]]
    if len(multis) > 1 or (multis and multis[0] != len(aa) - 1):
        probs.append("multi-valued argument not unique/last: %r" % (aa,))
    seen_opt = False
    for a in aa:
        if a[2] == "opt":
            seen_opt = True
        elif seen_opt:
            probs.append("required argument after optional: %r" % (aa,))
            break
    if len(set(a[1] for a in aa)) != len(aa):
        probs.append("duplicate argument name: %r" % (aa,))
    opts = list(d[("get_options", True)]) + list(d[("get_command_options", True)])
    for n in PROBE_NAMES:
        owners = [e for e in opts if isinstance(e, tuple) and n in Model.names_of(e)]
        if len(owners) > 1:
            probs.append("name %r identifies %d options: %r" % (n, len(owners), owners))
    return probs


def diff(a, b):
    da = dict((x[:-1], x[-1]) for x in a)
    db = dict((x[:-1], x[-1]) for x in b)
    out = []
    for k in da:
        if k not in db or da[k] != db[k]:
            out.append("%s: %r vs %r" % (k, da[k], db.get(k, "<absent>")))
    for k in db:
        if k not in da:
            out.append("%s: <absent> vs %r" % (k, db[k]))
    return out


def build_base(lab, levels):
    fmt, model = None, None
    for lvl in levels:
        b = lab.ArgsFormatBuilder(fmt)
        model = Model(model)
        for e in lvl:
            model.add(e)
            add_real(lab, b, e)
        fmt = b.format
    return fmt, model


def add_real(lab, b, e):
    o = lab.mk(e)
    if e[0] == "opt":
        b.add_option(o)
    elif e[0] == "copt":
        b.add_command_option(o)
    elif e[0] == "arg":
        b.add_argument(o)
    else:
        b.add_command_name(o)


def apply_real(lab, b, op):
    if op[0] == "add":
        add_real(lab, b, op[1])
    else:
        objs = [lab.mk(e) for e in op[1]]
        getattr(b, op[0])(*objs)


def apply_model(m, op):
    if op[0] == "add":
        m.add(op[1])
    else:
        m.set(op[0], op[1])


def classify(msg):
    return None


def execute(sh, lab, base_id, ops, record):
    """Returns True when the sequence is non-trivial."""
    lab.keys = {}
    basef, basem = build_base(lab, BASES[base_id])
    b = lab.ArgsFormatBuilder(basef)
    m = Model(basem)
    nontrivial = False
    rejected_any = False
    seen_add = False
    model_lost = False
    for n, op in enumerate(ops):
        last = n == len(ops) - 1
        if model_lost:
            # after a replacement that failed half-way the model no longer follows; the real builder goes on and must
            # still end in a consistent state (invariants, builder = format)
            try:
                apply_real(lab, b, op)
            except lab.reject:
                pass
            except Exception as e:
                sh.violate("operation-exception-type", record, "step %d %r raised %r" % (n, op, e))
                return nontrivial
            continue
        if op[0] != "add" and seen_add:
            nontrivial = True
        seen_add = seen_add or op[0] == "add"
        before = None
        if last and op[0] == "add":
            nargs = len(m.all_args())
            before = lab.real_answers(b, nargs, False)
        try:
            apply_model(m, op)
            want = True
        except Reject:
            want = False
        try:
            apply_real(lab, b, op)
            got = True
        except lab.reject:
            got = False
        except Exception as e:
            sh.violate("operation-exception-type", record, "step %d %r raised %r" % (n, op, e))
            return nontrivial
        sh.count("operations")
        if not want:
            rejected_any = True
            nontrivial = True
        if got != want:
            sh.violate("accept-reject", record, "step %d %r: builder %s, rules say %s" % (n, op, "accepted" if got else "rejected", "accept" if want else "reject"))
            return nontrivial
        if not got:
            sh.count("rejections")
            if op[0] != "add":
                # a set_* that fails half-way is not a single addition: later answers are not comparable with the model
                model_lost = True
                continue
            if before is not None:
                after = lab.real_answers(b, nargs, False)
                if before != after:
                    d = diff(before[0], after[0])
                    sh.violate("rejection-not-atomic", record, "rejected %r changed the builder: %s" % (op, "; ".join(d[:4])))
                    return nontrivial
                sh.count("atomicity_checks")
    # ---- final state: builder, format, model --------------------------------
    nargs = len(m.all_args())
    want = model_answers(m)
    try:
        ba, bo = lab.real_answers(b, nargs, True)
        f = b.format
        fa, fo = lab.real_answers(f, nargs, True)
    except Exception as e:
        sh.violate("query-raises", record, "query raised %r" % (e,))
        return nontrivial
    sh.count("final_states")
    if model_lost:
        sh.count("final_states_after_failed_replacement")
        want = ba  # no model: the builder's own answers stand in for the comparisons below
    d = diff(ba, want)
    if d:
        sh.violate("builder-vs-model", record, "builder answers differ from the listed elements: " + "; ".join(d[:4]), key_for(d))
    d = diff(fa, want)
    if d:
        sh.violate("format-vs-model", record, "format answers differ from the listed elements: " + "; ".join(d[:4]), key_for(d))
    d = diff(ba, fa)
    if d:
        sh.violate("builder-vs-format", record, "builder and built format disagree: " + "; ".join(d[:4]), key_for(d))
    if bo != fo:
        sh.violate("builder-vs-format", record, "listing order differs: builder %r, format %r" % (bo, fo))
    for who, ans in (("builder", ba), ("format", fa)):
        try:
            probs = invariants(ans)
        except Exception as e:
            probs = ["invariant evaluation failed: %r" % (e,)]
        for p in probs[:2]:
            sh.violate("invariant", record, "%s: %s" % (who, p))
    # ---- the finished format is a value: what the builder does next, and what a caller does with the lists and
    # dictionaries a query handed out, does not change its answers ------------------------------------------------
    for extra in (("cmd", "zzcont", ("zc",)), ("arg", "zzarg", "opt", False), ("opt", "zzopt", "Z"), ("copt", "zzcopt", "Y", ("zzalias",))):
        try:
            add_real(lab, b, extra)
        except lab.reject:
            pass
        except Exception as e:
            sh.violate("operation-exception-type", record, "adding %r after the format was built raised %r" % (extra, e))
            return nontrivial
    try:
        for ib in (True, False):
            f.get_command_names(ib).append(lab.mk(("cmd", "zzcaller", ())))
            f.get_arguments(ib)["zzcaller"] = lab.mk(("arg", "zzcaller", "opt", False))
            f.get_options(ib)["zzcaller"] = lab.mk(("opt", "zzcaller", None))
            got_co = f.get_command_options(ib)
            if isinstance(got_co, list):
                got_co.append(lab.mk(("copt", "zzcaller2", None, ())))
        fa2, fo2 = lab.real_answers(f, nargs, True)
    except Exception as e:
        sh.violate("query-raises", record, "query after further builder operations raised %r" % (e,))
        return nontrivial
    sh.count("format_is_a_value_checks")
    d = diff(fa, fa2)
    if d or fo != fo2:
        sh.violate("format-changed-after-build", record, "the built format answers differently after the builder went on and a caller changed returned containers: " + (
            "; ".join(d[:4]) if d else "listing order %r -> %r" % (fo, fo2)))
    # ---- constructor parity ---------------------------------------------------
    if all(op[0] == "add" for op in ops) and not model_lost:
        lab2 = lab
        elems = [lab2.mk(op[1]) for op in ops]
        try:
            f2 = lab.ArgsFormat(elems, basef)
            got = True
        except lab.reject:
            got = False
        except Exception as e:
            sh.violate("operation-exception-type", record, "ArgsFormat(elements, base) raised %r" % (e,))
            return nontrivial
        sh.count("constructor_checks")
        if got == rejected_any:
            sh.violate("constructor-parity", record, "ArgsFormat(elements, base) %s, the builder %s the same elements" % (
                "accepted" if got else "rejected", "rejected one of" if rejected_any else "accepted all of"))
        elif got:
            ca, _ = lab.real_answers(f2, nargs, True)
            d = diff(ca, want)
            if d:
                sh.violate("constructor-parity", record, "ArgsFormat(elements, base) answers differ: " + "; ".join(d[:4]))
    return nontrivial


def key_for(d):
    return None


def run_config_stack(sh, lab, rng, n):
    from clikit.api.config.command_config import CommandConfig

    for i in range(n):
        lab.keys = {}
        base_id = rng.randrange(len(BASES))
        basef, basem = build_base(lab, BASES[base_id])
        cfg = CommandConfig("cmd")
        anonymous = rng.random() < 0.2
        if anonymous:
            cfg.anonymous()
        aliases = ["c1"] if rng.random() < 0.5 else []
        for al in aliases:
            cfg.add_alias(al)
        m = Model(basem)
        elems = []
        for _ in range(rng.randint(0, 4)):
            op = OPS[rng.randrange(19)]
            e = op[1]
            if e[0] == "copt":
                continue
            elems.append(e)
        rec = {"kind": "config", "base": base_id, "elements": [list(e) for e in elems], "anonymous": anonymous, "aliases": aliases}
        ok = True
        A_ = lab.Argument
        try:
            for e in elems:
                if e[0] == "opt":
                    cfg.add_option(e[1], e[2])
                else:
                    cfg.add_argument(e[1], (A_.REQUIRED if e[2] == "req" else A_.OPTIONAL) | (A_.MULTI_VALUED if e[3] else 0))
        except lab.reject:
            sh.count("config_rejected_early")
            sh.case(("cfg", base_id, tuple(elems)), True)
            continue
        want_reject = False
        try:
            if not anonymous:
                m.add(("name", "cmd", tuple(aliases)))
            for e in [x for x in elems if x[0] == "opt"] + [x for x in elems if x[0] == "arg"]:
                m.add(e)
        except Reject:
            want_reject = True
        try:
            f = cfg.build_args_format(basef)
            got = True
        except lab.reject:
            got = False
        sh.count("config_stacks")
        sh.case(("cfg", base_id, tuple(elems), anonymous), want_reject or base_id > 0)
        if got == want_reject:
            sh.violate("config-stack", rec, "build_args_format %s but the rules say %s" % ("accepted" if got else "rejected", "reject" if want_reject else "accept"))
            continue
        if not got:
            continue
        # compare by names (objects are created inside the config)
        fa = f.get_arguments()
        want_args = [a[1] for a in m.all_args()]
        if list(fa.keys()) != want_args:
            sh.violate("config-stack", rec, "arguments %r expected %r" % (list(fa.keys()), want_args))
        if sorted(f.get_options().keys()) != sorted(o[1] for o in m.all_opts()):
            sh.violate("config-stack", rec, "options %r expected %r" % (sorted(f.get_options().keys()), sorted(o[1] for o in m.all_opts())))
        names = [c.string for c in f.get_command_names()]
        if names != [x[1] for x in m.all_names()]:
            sh.violate("config-stack", rec, "command names %r expected %r" % (names, [x[1] for x in m.all_names()]))
        for i2, a in enumerate(m.all_args()):
            if f.get_argument(i2).name != a[1] or f.get_argument(i2).is_required() != (a[2] == "req"):
                sh.violate("config-stack", rec, "argument %d is %r expected %r" % (i2, f.get_argument(i2).name, a))
        if f.has_required_argument() != any(a[2] == "req" for a in m.all_args()):
            sh.violate("config-stack", rec, "has_required_argument()=%r" % f.has_required_argument())


def plan(tier, seed):
    if tier == "quick":
        specs = [{"part": "enum", "maxlen": 3, "base": b} for b in range(len(BASES))]
        specs += [{"part": "random", "n": 15000, "lo": 4, "hi": 7} for _ in range(2)] + [{"part": "config", "n": 3000}]
        return specs
    specs = []
    for b in range(len(BASES)):
        for first in range(0, len(OPS), 8):
            specs.append({"part": "enum", "maxlen": 4, "base": b, "first": [first, first + 8]})
    specs += [{"part": "random", "n": 75000, "lo": 5, "hi": 7} for _ in range(8)] + [{"part": "config", "n": 30000} for _ in range(2)]
    return specs


def run(sh, spec):
    repo.activate()
    lab = Lab()
    if spec["part"] == "enum":
        base = spec["base"]
        first = spec.get("first")
        if first is None or first[0] == 0:
            execute(sh, lab, base, [], {"base": base, "ops": []})
            sh.case((base,), False)
        heads = range(len(OPS)) if first is None else range(first[0], min(first[1], len(OPS)))
        for n in range(1, spec["maxlen"] + 1):
            for h in heads:
                for rest in itertools.product(range(len(OPS)), repeat=n - 1):
                    idx = (h,) + rest
                    nt = execute(sh, lab, base, [OPS[i] for i in idx], {"base": base, "ops": list(idx)})
                    sh.case((base, idx), nt)
        sh.sample({"base": base, "ops": [0, 8, 13], "meaning": [repr(OPS[i]) for i in (0, 8, 13)]})
    elif spec["part"] == "random":
        rng = sh.rng
        for k in range(spec["n"]):
            base = rng.randrange(len(BASES))
            idx = tuple(rng.randrange(len(OPS)) for _ in range(rng.randint(spec["lo"], spec["hi"])))
            nt = execute(sh, lab, base, [OPS[i] for i in idx], {"base": base, "ops": list(idx)})
            sh.case((base, idx), nt)
    else:
        run_config_stack(sh, lab, sh.rng, spec["n"])


def finalize(tier, merged):
    c = merged["counters"]
    inc = []
    for k in ("operations", "rejections", "atomicity_checks", "final_states", "constructor_checks", "config_stacks", "format_is_a_value_checks"):
        if not c.get(k):
            inc.append("counter %s is zero" % k)
    return {"inconclusive": inc}


def replay(sh, case):
    repo.activate()
    lab = Lab()
    if case.get("kind") == "config":
        sh.inconclusive_because("config-stack replay: rerun the check with the same VERIF_SEED")
        return
    execute(sh, lab, case["base"], [OPS[i] for i in case["ops"]], case)
