"""Make the working tree of the repository under test importable.

``VERIF_REPO`` (default /repo) names the checkout; its ``src`` directory is put
first on ``sys.path`` and every check asserts that ``clikit`` was really
imported from there (never from an installed copy).
"""
import os
import sys

sys.dont_write_bytecode = True

REPO = os.path.abspath(os.environ.get("VERIF_REPO", "/repo"))
SRC = os.path.join(REPO, "src")


def activate():
    if SRC in sys.path:
        sys.path.remove(SRC)
    sys.path.insert(0, SRC)
    for name in list(sys.modules):
        if name == "clikit" or name.startswith("clikit."):
            mod = sys.modules[name]
            f = getattr(mod, "__file__", None) or ""
            if not f.startswith(SRC):
                del sys.modules[name]
    import clikit

    f = os.path.abspath(clikit.__file__)
    if not f.startswith(SRC + os.sep):
        raise RuntimeError("clikit imported from %s, expected under %s" % (f, SRC))
    return clikit
